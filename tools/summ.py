#!/usr/bin/env python3
"""summarise a VERIF_DUMP jsonl: tools/summ.py file [n]"""
import collections, json, sys
c = collections.Counter(); ex = {}
for l in open(sys.argv[1]):
    d = json.loads(l); cs = d["case"]; v = d["violation"]
    k = (cs.get("type", ""), cs.get("cls", cs.get("carver", "")), cs.get("kind", ""), cs.get("vt", ""), v.get("kind", v["what"][:30]), v.get("finding"))
    c[k] += 1
    ex.setdefault(k, (str({a: b for a, b in cs.items() if a not in ("type", "cls", "carver", "kind", "vt", "seed")})[:300], v["what"][:260]))
n = int(sys.argv[2]) if len(sys.argv) > 2 else 15
print(len(c), "kinds;", sum(c.values()), "violations")
for k, v in c.most_common(n):
    print(v, k); print("     ", ex[k][0]); print("     ", ex[k][1])
