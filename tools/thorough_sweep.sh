#!/bin/sh
# runs every thorough tier in turn (evidence and replays go to a scratch directory, never to /verif/evidence)
# usage: tools/thorough_sweep.sh [ids...]
out=${SWEEP_OUT:-/var/tmp/thorough_sweep}
mkdir -p $out/evidence $out/replay
ids="$@"
[ -z "$ids" ] && ids="C13 C17 C19 C18 C07 C10 C14 C15 C12 C05 C06 C03 C04 C11 C16 C08 C09 C01 C02"
for id in $ids; do
  start=$(date +%s)
  VERIF_EVIDENCE_DIR=$out/evidence VERIF_REPLAY_DIR=$out/replay /venv/bin/python -m mc.run $id --tier thorough > $out/$id.log 2>&1
  rc=$?
  echo "$id rc=$rc wall=$(( $(date +%s) - start ))s $(grep -c '^VIOLATION' $out/$id.log) violation lines; $(tail -n 1 $out/$id.log | cut -c1-220)"
done
echo SWEEPDONE
