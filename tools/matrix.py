#!/usr/bin/env python3
"""Regenerates the 'which check catches which change' tables (DESIGN.md §9) from mutants/results.jsonl and
seeded/*/meta.json.   tools/matrix.py > /tmp/matrix.md"""
import glob
import json
import os

print("### 9.1 Independently produced changes (`seeded/<id>/`)\n")
print("Each was written by a sub-agent that saw only the property text and a private worktree; each was re-verified here "
      "(patch applies, demo fails with / passes without it, the repository's 102 tests pass with it) before being kept.\n")
print("| seed | property | tests with patch | demo (patched / pristine) | checks run → verdict |")
print("|---|---|---|---|---|")
for p in sorted(glob.glob("/verif/seeded/*/meta.json")):
    m = json.load(open(p))
    t = m.get("tests_with_patch", {})
    tests = f"{t.get('passed', '?')} passed, {t.get('failed', '?')} failed" if t else "not run"
    demo = f"{'fails' if m.get('demo_fails_with_patch') else 'PASSES'} / {'passes' if m.get('demo_passes_without_patch') else 'FAILS'}"
    checks = ", ".join(f"{k}: {v}" for k, v in sorted(m.get("checks", {}).items()))
    print(f"| {m['seed_id']} | {m['property']} | {tests} | {demo} | {checks} |")
print("\n### 9.2 My own detection demos (`tools/demo_mutants.py`, tests not re-run for these)\n")
print("| mutant | verdicts |")
print("|---|---|")
last = {}
if os.path.exists("/verif/mutants/results.jsonl"):
    for l in open("/verif/mutants/results.jsonl"):
        d = json.loads(l)
        last[d["mutant"]] = d
for k in sorted(last):
    print(f"| {k} | " + ", ".join(f"{c}: {v}" for c, v in last[k]["checks"].items()) + " |")
