#!/usr/bin/env python3
"""Run checks against a mutated scratch copy of /repo's AutoCarver package (never touches /repo).

  tools/mutant.py --patch seeded/<id>/patch.diff --checks C01 C02 [--tier quick]
  tools/mutant.py --sub AutoCarver/carvers/base_carver.py 'old text' 'new text' --checks C01

Evidence / replay files of these runs go to the scratch directory, which is removed afterwards.
Prints one line per check:  <check> exit=<code> violations=<n> wall=<s>  (+ first VIOLATION 'what' lines)."""
import argparse
import os
import shutil
import subprocess
import sys
import tempfile
import time


def main():
    ap = argparse.ArgumentParser()
    ap.add_argument("--patch")
    ap.add_argument("--sub", nargs=3, action="append", default=[])
    ap.add_argument("--checks", nargs="+", required=True)
    ap.add_argument("--tier", default="quick")
    ap.add_argument("--seed", default="0")
    ap.add_argument("--keep", action="store_true")
    ap.add_argument("--show", type=int, default=3)
    a = ap.parse_args()
    d = tempfile.mkdtemp(prefix="acv-mut-", dir="/var/tmp")
    try:
        shutil.copytree("/repo/AutoCarver", os.path.join(d, "AutoCarver"))
        if a.patch:
            r = subprocess.run(["patch", "-p1", "-d", d, "-i", os.path.abspath(a.patch)], capture_output=True, text=True)
            if r.returncode != 0:
                print("PATCH FAILED", r.stdout, r.stderr)
                return 2
        for f, old, new in a.sub:
            p = os.path.join(d, f)
            s = open(p).read()
            if old not in s:
                print("SUBSTITUTION TARGET NOT FOUND in", f)
                return 2
            open(p, "w").write(s.replace(old, new, 1))
        env = dict(os.environ, AUTOCARVER_SRC=d, VERIF_EVIDENCE_DIR=os.path.join(d, "evidence"), VERIF_REPLAY_DIR=os.path.join(d, "replays"), VERIF_SEED=a.seed)
        rc_all = 0
        for chk in a.checks:
            t0 = time.time()
            r = subprocess.run(["/venv/bin/python", "-m", "mc.run", chk, "--tier", a.tier], cwd="/verif", env=env, capture_output=True, text=True)
            viol = [l for l in r.stdout.splitlines() if l.startswith("VIOLATION")]
            whats = [l.strip() for l in r.stderr.splitlines() if l.strip().startswith("what:")]
            summ = [l for l in r.stdout.splitlines() if l.startswith("[")]
            print(f"{chk} exit={r.returncode} violation_lines={len(viol)} wall={time.time()-t0:.0f}s {summ[-1] if summ else ''}")
            for w in whats[: a.show]:
                print("    ", w[:220])
            if r.returncode not in (0, 1):
                print(r.stderr[-1500:])
            rc_all |= r.returncode
        return rc_all
    finally:
        if not a.keep:
            shutil.rmtree(d, ignore_errors=True)


if __name__ == "__main__":
    sys.exit(main())
