#!/bin/sh
# tools/collect_seed.sh <round-dir> <worktree> <Cxx>: copies <worktree>/_seed to <round-dir>/<Cxx> and removes the scratch worktree
set -e
mkdir -p "$1/$3"
cp -r "$2/_seed/." "$1/$3/"
git -C /repo worktree remove --force "$2"
ls "$1/$3"
