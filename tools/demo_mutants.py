#!/usr/bin/env python3
"""My own detection demos (DESIGN.md §3 'Detection demo' entries): one-line semantic changes of AutoCarver that the
repository's tests are not expected to notice.  Runs each against the checks that should catch it and prints a
matrix.  (The independently produced changes live under /verif/seeded/.)

  tools/demo_mutants.py [id-prefix ...]      results appended to /verif/mutants/results.jsonl
"""
import json
import os
import subprocess
import sys
import time

BC = "AutoCarver/carvers/base_carver.py"
BIN = "AutoCarver/carvers/binary_carver.py"
CONT = "AutoCarver/carvers/continuous_carver.py"
MULTI = "AutoCarver/carvers/multiclass_carver.py"
BD = "AutoCarver/discretizers/utils/base_discretizers.py"
GL = "AutoCarver/discretizers/utils/grouped_list.py"
QD = "AutoCarver/discretizers/utils/quantitative_discretizers.py"
QL = "AutoCarver/discretizers/utils/qualitative_discretizers.py"
TD = "AutoCarver/discretizers/utils/type_discretizers.py"
SER = "AutoCarver/discretizers/utils/serialization.py"
DD = "AutoCarver/discretizers/discretizers.py"
QF = "AutoCarver/selectors/filters/quantitative_filters.py"
BS = "AutoCarver/selectors/base_selector.py"

MUTANTS = [
    ("m01-sort-ascending", BC, ".sort_values(self.sort_by, ascending=False)", ".sort_values(self.sort_by, ascending=True)", ["C01"]),
    ("m02-nan-alone-dropped", BC, "        if len(combination) < max_n_mod:\n            # copying input combination", "        if False:\n            # copying input combination", ["C01", "C16"]),
    ("m03-min-freq-strict", BC, 'min_freq_train = all(train_rates["frequency"] >= self.min_freq_mod)', 'min_freq_train = all(train_rates["frequency"] > self.min_freq_mod)', ["C01"]),
    ("m04-nan-alone-exceeds-max", BC, "        if len(combination) < max_n_mod:\n            # copying input combination", "        if len(combination) <= max_n_mod:\n            # copying input combination", ["C02", "C01"]),
    ("m05-no-min-freq-dev", BC, "dev_viable = ranks_train_dev and min_freq_dev and distinct_rates_dev", "dev_viable = ranks_train_dev and distinct_rates_dev", ["C02", "C01"]),
    ("m06-no-rank-check", BC, "dev_viable = ranks_train_dev and min_freq_dev and distinct_rates_dev", "dev_viable = min_freq_dev and distinct_rates_dev", ["C02", "C01"]),
    ("m07-transform-strict-less", BD, "values_to_group = [df_feature <= value for value in feature_values if value != str_nan]", "values_to_group = [df_feature < value for value in feature_values if value != str_nan]", ["C03", "C04"]),
    ("m08-kept-min", BD, "kept_value = max(which_to_keep)", "kept_value = min(which_to_keep)", ["C03", "C04", "C01"]),
    ("m09-float-labels-from-1", BD, "labels = [n for n, _ in enumerate(labels)]", "labels = [n + 1 for n, _ in enumerate(labels)]", ["C04"]),
    ("m10-no-string-form", TD, "        if str_value not in values_order:\n            values_order.append(str_value)  # adding string value to the order\n            values_order.group(value, str_value)", "        if str_value not in values_order and not isinstance(value, str):\n            values_order.append(str_value)  # adding string value to the order", ["C04", "C08", "C06"]),
    ("m11-no-new-value-check", BD, '            assert len(unexpected) == 0, (\n                " - [Discretizer] Unexpected value! The ordering for values: "', '            assert True or len(unexpected) == 0, (\n                " - [Discretizer] Unexpected value! The ordering for values: "', ["C05"]),
    ("m12-no-inf", QD, "order = GroupedList(quantiles + [inf])", "order = GroupedList(quantiles + [max(quantiles + [0]) + 1])", ["C05", "C03", "C08", "C09"]),
    ("m13-json-int-as-float", SER, "        output = int(value)", "        output = float(value)", ["C06"]),
    ("m14-inf-string-kept", SER, '    if value == "numpy.inf":  # numpy.inf value\n        output = inf', '    if value == "numpy.inf" and False:  # numpy.inf value\n        output = inf', ["C06", "C04"]),
    ("m15-copy-ignored", BD, "            if self.copy:\n                x_copy = X.copy()", "            if self.copy and False:\n                x_copy = X.copy()", ["C07"]),
    ("m16-remove-feature-forgets-dropna", BD, "            if feature in self.features_dropna:\n                self.features_dropna.pop(feature)", "            pass", ["C08"]),
    ("m17-quantile-higher", QD, 'method="lower",', 'method="higher",', ["C09", "C08"]),
    ("m18-frequent-strict", QD, "    if any(frequencies >= len_df / q):\n        # identifying over-represented modality\n        frequent_values = values[frequencies >= len_df / q]", "    if any(frequencies > len_df / q):\n        # identifying over-represented modality\n        frequent_values = values[frequencies > len_df / q]", ["C09"]),
    ("m19-default-group-leq", QL, "if freq < self.min_freq and val != self.str_nan", "if freq <= self.min_freq and val != self.str_nan", ["C09"]),
    ("m20-pool-by-position", QD, "self.values_orders.update({feature: order for (feature, order) in all_orders})", "self.values_orders.update({feature: order for feature, (_, order) in zip(self.quantitative_features, all_orders)})", ["C10"]),
    ("m21-carve-loop-skips", BC, "        all_features = self.features[:]  # (features are being removed from self.features)", "        all_features = self.features  # (features are being removed from self.features)", ["C10", "C08"]),
    ("m22-y-positional", BIN, "                xtab = crosstab(X[feature], y)", "                xtab = crosstab(X[feature].values, y.values)", ["C11"]),
    ("m23-multiclass-drops-last", MULTI, "y_classes = sorted(list(y_copy.unique()))[1:]", "y_classes = sorted(list(y_copy.unique()))[1:-1] or sorted(list(y_copy.unique()))[1:]", ["C12"]),
    ("m24-group-forgets-remove", GL, "            # removing discarded from the list\n            self.remove(discarded)", "            # removing discarded from the list\n            list.remove(self, discarded)", ["C13"]),
    ("m25-copy-shares-content", GL, "            self.content = dict(iterable.content.items())", "            self.content = iterable.content", ["C13"]),
    ("m26-filter-against-worse", QF, 'corr_with_better_features = X_corr.loc[:feature, feature].fillna(0)', 'corr_with_better_features = X_corr.loc[:, feature].fillna(0)', ["C14"]),
    ("m27-n-best-plus-one", BS, "and (feature in filtered_association.index[:n_best])", "and (feature in filtered_association.index[: n_best + 1])", ["C14"]),
    ("m28-history-off-by-one", BC, "associations_not_checked = associations_xagg[n_combination + 1 :]", "associations_not_checked = associations_xagg[n_combination + 2 :]", ["C16"]),
    ("m29-update-no-label-refresh", BD, "            self.values_orders.update({feature: order})\n            self.labels_per_values = self._get_labels_per_values(self.output_dtype)", "            self.values_orders.update({feature: order})", ["C17"]),
    ("m30-update-group-swapped", BD, "                order.group(discarded_value, kept_value)\n\n            # replacing group leader if requested", "                order.group(kept_value, discarded_value)\n\n            # replacing group leader if requested", ["C17"]),
    ("m31-chained-geq-strict", QL, "to_keep = list(values[frequencies >= self.min_freq]) + [", "to_keep = list(values[frequencies > self.min_freq]) + [", ["C18"]),
    ("m32-chained-stale-frequencies", QL, "                # updating frequencies of each modality for the next ordering\n                frequencies = x_copy[feature].value_counts(normalize=True)", "                # updating frequencies of each modality for the next ordering\n                frequencies = Series(frequencies, index=values)", ["C18"]),
    ("m33-no-y-nan-assert", BD, '                assert not any(y.isna()), " - [Discretizer] y should not contain numpy.nan"', '                assert True, " - [Discretizer] y should not contain numpy.nan"', ["C19"]),
    ("m34-no-overlap-assert", BC, "        assert all(\n            quali_feature not in quantitative_features\n            for quali_feature in (qualitative_features + ordinal_features)\n        ), msg\n        assert all(\n            quanti_feature not in (qualitative_features + ordinal_features)\n            for quanti_feature in quantitative_features\n        ), msg", "        pass", ["C19"]),
    ("m35-closest-modality", QL, "        idx_closest_modality = idx + 1\n\n    # finding the closest value", "        idx_closest_modality = idx + 2 if idx + 2 < frequencies.shape[0] else idx + 1\n\n    # finding the closest value", ["C03", "C08", "C09"]),
    ("m36-summary-skips-nan", BD, "            if self.str_nan in raw_labels_per_values[feature]:\n                nan_group", "            if False and self.str_nan in raw_labels_per_values[feature]:\n                nan_group", ["C16"]),
]


def main():
    sel = sys.argv[1:]
    os.makedirs("/verif/mutants", exist_ok=True)
    out = open("/verif/mutants/results.jsonl", "a")
    for mid, f, old, new, checks in MUTANTS:
        if sel and not any(mid.startswith(s) for s in sel):
            continue
        t0 = time.time()
        r = subprocess.run([sys.executable, "/verif/tools/mutant.py", "--sub", f, old, new, "--checks", *checks, "--show", "1"], capture_output=True, text=True, cwd="/verif")
        lines = [l for l in r.stdout.splitlines() if l[:1] == "C"]
        verdicts = {}
        for l in lines:
            chk = l.split()[0]
            verdicts[chk] = "DETECTED" if "exit=1" in l else ("silent" if "exit=0" in l else "ERROR")
        if "SUBSTITUTION TARGET NOT FOUND" in r.stdout:
            verdicts = {"__": "TARGET-NOT-FOUND"}
        rec = {"mutant": mid, "file": f, "checks": verdicts, "wall_s": round(time.time() - t0)}
        print(json.dumps(rec), flush=True)
        out.write(json.dumps(rec) + "\n")
        out.flush()


if __name__ == "__main__":
    main()
