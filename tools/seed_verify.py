#!/usr/bin/env python3
"""Verify and file one independently produced property-breaking change.

  tools/seed_verify.py <seed-id> <src-dir with patch.diff demo.py notes.md> <property> [--checks C01 C02 ...]
                       [--skip-tests] [--tier quick]

Copies the three files to /verif/seeded/<seed-id>/, then in a scratch git worktree of /repo (removed afterwards):
  1. applies the patch, 2. runs demo.py against the patched tree (must fail) and against /repo (must pass),
  3. runs the repository's test suite on the patched tree (must pass), 4. runs the listed checks against the patched
  package (tools/mutant.py) and records their verdicts.  Writes /verif/seeded/<seed-id>/meta.json."""
import argparse
import json
import os
import re
import shutil
import subprocess
import sys
import tempfile
import time

PY = "/venv/bin/python"


def sh(cmd, **kw):
    return subprocess.run(cmd, capture_output=True, text=True, **kw)


def main():
    ap = argparse.ArgumentParser()
    ap.add_argument("seed_id")
    ap.add_argument("src")
    ap.add_argument("prop")
    ap.add_argument("--checks", nargs="*")
    ap.add_argument("--skip-tests", action="store_true")
    ap.add_argument("--tier", default="quick")
    ap.add_argument("--jobs", default="8")
    a = ap.parse_args()
    dst = f"/verif/seeded/{a.seed_id}"
    os.makedirs(dst, exist_ok=True)
    for f in ("patch.diff", "demo.py", "notes.md"):
        if os.path.abspath(a.src) != os.path.abspath(dst):
            shutil.copy(os.path.join(a.src, f), os.path.join(dst, f))
    meta_path = os.path.join(dst, "meta.json")
    meta = json.load(open(meta_path)) if os.path.exists(meta_path) else {}
    meta.update({"seed_id": a.seed_id, "property": a.prop, "origin": "independent sub-agent given only the property text and a private worktree"})
    meta["needs_to_manifest"] = open(os.path.join(dst, "notes.md")).read()[:1500]
    scratch = tempfile.mkdtemp(prefix="acv-seed-", dir="/var/tmp")
    os.rmdir(scratch)
    ran = []
    try:
        r = sh(["git", "-C", "/repo", "worktree", "add", "-q", "--detach", scratch, "HEAD"])
        assert r.returncode == 0, r.stderr
        r = sh(["git", "-C", scratch, "apply", os.path.join(dst, "patch.diff")])
        meta["patch_applies_to_repo_head"] = r.returncode == 0
        meta["repo_head"] = sh(["git", "-C", "/repo", "rev-parse", "--short", "HEAD"]).stdout.strip()
        if r.returncode != 0:
            meta["patch_error"] = r.stderr[-400:]
            print("PATCH DOES NOT APPLY", r.stderr[-300:])
        else:
            env_p = dict(os.environ, PYTHONPATH=scratch, PYTHONWARNINGS="ignore")
            env_o = dict(os.environ, PYTHONPATH="/repo", PYTHONWARNINGS="ignore")
            d1 = sh([PY, os.path.join(dst, "demo.py")], env=env_p, cwd=dst, timeout=900)
            d0 = sh([PY, os.path.join(dst, "demo.py")], env=env_o, cwd=dst, timeout=900)
            meta["demo_fails_with_patch"] = d1.returncode != 0
            meta["demo_passes_without_patch"] = d0.returncode == 0
            ran += [f"PYTHONPATH=<patched worktree> {PY} demo.py -> exit {d1.returncode}", f"PYTHONPATH=/repo {PY} demo.py -> exit {d0.returncode}"]
            if d0.returncode != 0:
                meta["demo_pristine_output"] = (d0.stdout + d0.stderr)[-500:]
            if not a.skip_tests:
                t0 = time.time()
                t = sh([PY, "-m", "pytest", "-q", "-p", "no:cacheprovider", "--timeout=900", "-n", a.jobs], env=env_p, cwd=scratch, timeout=3600)
                tail = (t.stdout.strip().splitlines() or [""])[-1]
                m = re.search(r"(\d+) passed", tail)
                f = re.search(r"(\d+) failed", tail)
                meta["tests_with_patch"] = {"passed": int(m.group(1)) if m else 0, "failed": int(f.group(1)) if f else 0, "summary": tail, "wall_s": round(time.time() - t0)}
                ran.append(f"cd <patched worktree> && PYTHONPATH=. {PY} -m pytest -q -p no:cacheprovider --timeout=900 -n {a.jobs} -> {tail}")
            if a.checks:
                r = sh([sys.executable, "/verif/tools/mutant.py", "--patch", os.path.join(dst, "patch.diff"), "--checks", *a.checks, "--tier", a.tier, "--show", "2"], cwd="/verif")
                verdicts = {}
                whats = {}
                cur = None
                for line in r.stdout.splitlines():
                    if re.match(r"^C\d+ exit=", line):
                        cur = line.split()[0]
                        verdicts[cur] = "DETECTED" if "exit=1" in line else ("silent" if "exit=0" in line else "ERROR")
                        whats[cur] = [line[:300]]
                    elif cur and line.strip().startswith("what:"):
                        whats[cur].append(line.strip()[:300])
                meta.setdefault("checks", {}).update(verdicts)
                meta.setdefault("check_output", {}).update(whats)
                ran.append(f"tools/mutant.py --patch seeded/{a.seed_id}/patch.diff --checks {' '.join(a.checks)} --tier {a.tier}")
    finally:
        sh(["git", "-C", "/repo", "worktree", "remove", "--force", scratch])
        shutil.rmtree(scratch, ignore_errors=True)
    meta.setdefault("what_i_ran", [])
    meta["what_i_ran"] += ran
    json.dump(meta, open(meta_path, "w"), indent=1)
    print(json.dumps({k: meta.get(k) for k in ("seed_id", "property", "patch_applies_to_repo_head", "demo_fails_with_patch", "demo_passes_without_patch", "tests_with_patch", "checks")}, indent=1))


if __name__ == "__main__":
    main()
