"""RefCarver: brute-force transcription of property C01 with three-valued viability.

A *cell* is what one base modality carries: binary target -> (n0, n1); continuous target -> tuple of y
values.  `Stage` enumerates every candidate of one search (stage 1: compositions of the base modalities
into 2..max_n_mod contiguous groups; stage 2: compositions of the stage-1 groups x placement of the
missing-value modality), gives each a viability in {True, False, None(=DONT_CARE)} and the measure under
each accepted convention, and answers `accepts(candidate | None)`.
"""
from __future__ import annotations

import itertools
from fractions import Fraction as F

from . import stats

TOL = 1e-9


# ---------------------------------------------------------------------------------------------------
# cells
# ---------------------------------------------------------------------------------------------------
def is_binary(cell):
    return len(cell) == 2 and not isinstance(cell, Cont)


class Cont(tuple):
    """continuous cell: tuple of y values"""


def csize(cell):
    return len(cell) if isinstance(cell, Cont) else cell[0] + cell[1]


def csum(cell):
    return sum(cell) if isinstance(cell, Cont) else cell[1]


def cmerge(cells):
    cells = list(cells)
    if not cells:
        return None
    if isinstance(cells[0], Cont):
        return Cont(v for c in cells for v in c)
    return (sum(c[0] for c in cells), sum(c[1] for c in cells))


def crate(cell):
    n = csize(cell)
    if n == 0:
        return None
    s = csum(cell)
    return F(s).limit_denominator(10**9) / n if not isinstance(s, int) else F(s, n)


def compositions(k, maxg, ming=2):
    """all ways to cut range(k) into ming..maxg contiguous groups"""
    out = []
    for g in range(ming, min(maxg, k) + 1):
        for cuts in itertools.combinations(range(1, k), g - 1):
            b = [0] + list(cuts) + [k]
            out.append([list(range(b[i], b[i + 1])) for i in range(g)])
    return out


# ---------------------------------------------------------------------------------------------------
# three-valued tests
# ---------------------------------------------------------------------------------------------------
def and3(*vals):
    if any(v is False for v in vals):
        return False
    if any(v is None for v in vals):
        return None
    return True


def freq_ok(size, total, mfm):
    """size/total >= mfm, DONT_CARE when the exact rational sits on a threshold that is not exactly
    representable in binary floating point (float division may land on either side)"""
    if total == 0:
        return False
    d = F(size, total)
    t_dec = F(repr(float(mfm)))
    if d == t_dec:
        return True if F(float(mfm)) == t_dec else None
    return d > t_dec


def rates_distinct(rates, soft_last=False):
    """order-adjacent groups have distinct rates; soft_last: the last group is the missing-value modality
    standing alone, whose position in the order is not prescribed -> equality there is DONT_CARE"""
    res = True
    n = len(rates)
    for i in range(n - 1):
        a, b = rates[i], rates[i + 1]
        soft = soft_last and i == n - 2
        if a is None or b is None:
            res = and3(res, None)
        elif a == b:
            res = and3(res, None if soft else False)
    return res


def same_ranking(train_rates, dev_rates):
    """groups ranked identically by target rate on both samples; ties make it DONT_CARE unless a strict
    inversion exists"""
    n = len(train_rates)
    tie = False
    for i in range(n):
        for j in range(i + 1, n):
            a, b, c, d = train_rates[i], train_rates[j], dev_rates[i], dev_rates[j]
            if None in (a, b, c, d):
                tie = True
                continue
            st = (a > b) - (a < b)
            sd = (c > d) - (c < d)
            if st == 0 or sd == 0:
                tie = True  # the (unstable) sort may order tied groups either way
                continue
            if st != sd:
                return False
    return None if tie else True


# ---------------------------------------------------------------------------------------------------
def measures(cells, sort_by):
    """measure of a grouping under each accepted convention -> list (one entry per convention)"""
    if isinstance(cells[0], Cont):
        return [stats.kruskal([list(c) for c in cells])]
    table = [[c[0], c[1]] for c in cells]
    fn = stats.cramerv_binary if sort_by == "cramerv" else stats.tschuprowt_binary
    return [fn(table, yates=True), fn(table, yates=False)]


class Candidate:
    __slots__ = ("key", "viable", "meas", "detail")

    def __init__(self, key, viable, meas, detail=None):
        self.key, self.viable, self.meas, self.detail = key, viable, meas, detail


class Stage:
    def __init__(self, cands):
        self.cands = cands
        self.by_key = {c.key: c for c in cands}

    def n_conventions(self):
        return len(self.cands[0].meas) if self.cands else 1

    def best_definite(self, conv):
        vals = [c.meas[conv] for c in self.cands if c.viable is True and c.meas[conv] is not None]
        return max(vals) if vals else None

    def accepts(self, key):
        """key None = 'no viable candidate'. returns (bool, reason)"""
        if not self.cands:
            return (key is None, "no candidate at all")
        reasons = []
        for conv in range(self.n_conventions()):
            mt = self.best_definite(conv)
            if key is None:
                if mt is None:
                    return True, "no definitely viable candidate"
                reasons.append(f"a definitely viable candidate exists (measure {mt:.6g})")
                continue
            c = self.by_key.get(key)
            if c is None:
                return False, "chosen grouping is not a candidate of the search space"
            if c.viable is False:
                return False, f"chosen grouping is not viable: {c.detail}"
            m = c.meas[conv]
            if m is None:
                reasons.append("measure undefined for the chosen grouping")
                continue
            if mt is None or m >= mt - TOL * max(1.0, abs(mt)):
                return True, "optimal"
            reasons.append(f"measure {m:.6g} < best viable {mt:.6g}")
        return False, "; ".join(reasons)

    def acceptable_keys(self):
        return [c.key for c in self.cands if self.accepts(c.key)[0]]

    def nontrivial(self):
        """>= 2 definitely viable candidates with different measures, or nothing viable"""
        vals = sorted({round(c.meas[-1], 9) for c in self.cands if c.viable is True and c.meas[-1] is not None})
        return len(vals) >= 2 or not vals


def key_of(groups, nan_pos=None):
    return (tuple(tuple(g) for g in groups), nan_pos)


def evaluate(groups_cells, dev_cells, total, dev_total, cfg, soft_last=False):
    """viability of one candidate given the merged cells of its groups (train, dev)"""
    mfm = cfg["min_freq_mod"]
    sizes = [csize(c) for c in groups_cells]
    v_freq = and3(*[freq_ok(s, total, mfm) for s in sizes])
    rates = [crate(c) for c in groups_cells]
    v_rates = rates_distinct(rates, soft_last)
    detail = None
    v = and3(v_freq, v_rates)
    if v_freq is False:
        detail = f"a group is rarer than min_freq_mod (sizes {sizes} of {total})"
    elif v_rates is False:
        detail = f"adjacent groups share a target rate ({[str(r) for r in rates]})"
    if dev_cells is not None:
        dsizes = [csize(c) for c in dev_cells]
        d_freq = and3(*[freq_ok(s, dev_total, mfm) for s in dsizes])
        drates = [crate(c) for c in dev_cells]
        d_rates = rates_distinct(drates, soft_last)
        d_rank = same_ranking(rates, drates)
        vd = and3(d_freq, d_rates, d_rank)
        if v is not False and vd is False:
            detail = f"not robust on dev (freq {d_freq}, distinct {d_rates}, ranking {d_rank}; dev sizes {dsizes}, dev rates {[str(r) for r in drates]})"
        v = and3(v, vd)
    return v, detail


def stage1(base, dev_base, cfg):
    """base: list of cells of the non-missing base modalities, in order"""
    k = len(base)
    total = sum(csize(c) for c in base)
    dev_total = sum(csize(c) for c in dev_base) if dev_base is not None else None
    cands = []
    for comp in compositions(k, cfg["max_n_mod"]):
        cells = [cmerge(base[i] for i in g) for g in comp]
        dcells = [cmerge(dev_base[i] for i in g) for g in comp] if dev_base is not None else None
        v, detail = evaluate(cells, dcells, total, dev_total, cfg)
        meas = measures(cells, cfg["sort_by"])
        if all(m is None for m in meas) and v is True:
            v = None
        cands.append(Candidate(key_of(comp), v, meas, detail))
    return Stage(cands)


def stage2(s1_groups, base, nan, dev_base, dev_nan, cfg):
    """s1_groups: the stage-1 grouping (list of lists of base indices). Candidates: compositions of those
    groups into 2..max_n_mod groups x missing-value modality inside group n, or alone (last) iff
    #groups < max_n_mod.  Frequencies over all rows."""
    g = len(s1_groups)
    total = sum(csize(c) for c in base) + csize(nan)
    has_dev = dev_base is not None
    dev_total = (sum(csize(c) for c in dev_base) + (csize(dev_nan) if dev_nan is not None else 0)) if has_dev else None
    empty = Cont(()) if isinstance(nan, Cont) else (0, 0)
    dn = (dev_nan if dev_nan is not None else empty) if has_dev else None
    cands = []
    for comp in compositions(g, cfg["max_n_mod"]):
        merged = [[i for j in grp for i in s1_groups[j]] for grp in comp]
        cells = [cmerge(base[i] for i in grp) for grp in merged]
        dcells = [cmerge(dev_base[i] for i in grp) for grp in merged] if has_dev else None
        for pos in range(len(comp)):
            c2 = list(cells)
            c2[pos] = cmerge([c2[pos], nan])
            d2 = None
            if has_dev:
                d2 = list(dcells)
                d2[pos] = cmerge([d2[pos], dn])
            v, detail = evaluate(c2, d2, total, dev_total, cfg)
            cands.append(Candidate(key_of(merged, pos), v, measures(c2, cfg["sort_by"]), detail))
        if len(comp) < cfg["max_n_mod"]:
            c2 = list(cells) + [nan]
            d2 = (list(dcells) + [dn]) if has_dev else None
            v, detail = evaluate(c2, d2, total, dev_total, cfg, soft_last=True)
            cands.append(Candidate(key_of(merged, "alone"), v, measures(c2, cfg["sort_by"]), detail))
    return Stage(cands)


def judge(base, nan, dev_base, dev_nan, cfg, observed):
    """observed: None (feature dropped) or (groups, nan_pos) with groups = list of lists of base indices in
    order and nan_pos in {None, 'alone', int}.  Returns (ok, reason, info)"""
    info = {}
    if len(base) < 2:
        return (observed is None, "fewer than 2 non-missing base modalities: nothing to group", info)
    s1 = stage1(base, dev_base, cfg)
    info["stage1_candidates"] = len(s1.cands)
    info["nontrivial"] = s1.nontrivial()
    info["dont_care"] = sum(1 for c in s1.cands if c.viable is None)
    two_stage = nan is not None and cfg["dropna"]
    if not two_stage:
        if observed is None:
            ok, why = s1.accepts(None)
            return ok, "dropped: " + why, info
        groups, nan_pos = observed
        want = "alone" if nan is not None else None
        if nan_pos != want:
            return False, f"missing-value modality placed at {nan_pos!r}, expected {want!r}", info
        ok, why = s1.accepts(key_of(groups))
        return ok, why, info
    # two stages
    acc1 = s1.acceptable_keys()
    if observed is None:
        ok, why = s1.accepts(None)
        if ok:
            return True, "dropped at stage 1: " + why, info
        why2 = []
        for key in acc1:
            s2 = stage2([list(g) for g in key[0]], base, nan, dev_base, dev_nan, cfg)
            ok2, w2 = s2.accepts(None)
            if ok2:
                return True, "dropped at stage 2: " + w2, info
            why2.append(w2)
        return False, f"dropped although stage 1: {why}; stage 2: {why2[:2]}", info
    groups, nan_pos = observed
    if nan_pos is None:
        return False, "dropna=True but the missing-value modality is not in any group", info
    reasons = []
    fin = key_of(groups, nan_pos)
    for key in acc1:
        s1g = [list(g) for g in key[0]]
        # the final groups must be unions of stage-1 groups
        starts = {g[0] for g in s1g}
        if not all(g[0] in starts for g in groups):
            continue
        s2 = stage2(s1g, base, nan, dev_base, dev_nan, cfg)
        info["nontrivial"] = info["nontrivial"] or s2.nontrivial()
        info["dont_care"] += sum(1 for c in s2.cands if c.viable is None)
        ok2, w2 = s2.accepts(fin)
        if ok2:
            return True, "optimal in both stages", info
        reasons.append(f"from stage-1 {key[0]}: {w2}")
    if not reasons:
        return False, f"final groups {groups} are not a re-merge of any optimal stage-1 grouping (acceptable: {[k[0] for k in acc1][:4]})", info
    return False, "; ".join(reasons[:3]), info
