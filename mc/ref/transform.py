"""RefTransform: the mapping row value -> group that `values_orders` (list + content) describes.
Reads nothing but the GroupedList: leaders in list order and their member lists."""
from __future__ import annotations

import math

STR_NAN = "__NAN__"


def is_missing(v):
    return v is None or (isinstance(v, float) and math.isnan(v))


def str_form(v):
    if isinstance(v, float) and float(v).is_integer():
        return str(int(v))
    return str(v)


class RefTransform:
    def __init__(self, order, quantitative, str_nan=STR_NAN):
        self.leaders = list(order)
        self.content = {k: list(v) for k, v in order.content.items()}
        self.quantitative = quantitative
        self.str_nan = str_nan
        self.nan_group = None
        for i, l in enumerate(self.leaders):
            if any(isinstance(m, str) and m == str_nan for m in self.content[l]):
                self.nan_group = i

    def n_groups(self):
        return len(self.leaders)

    def group_of(self, v):
        """index (in list order) of the group of a value; None = no group (unseen value); for a missing
        value: the group holding str_nan (None when missing values were never seen)"""
        if is_missing(v):
            return self.nan_group
        if self.quantitative:
            for i, l in enumerate(self.leaders):
                if isinstance(l, str):
                    continue
                if v <= l:
                    return i
            return None
        hits = [i for i, l in enumerate(self.leaders) if any((not isinstance(m, float) or not math.isnan(m)) and m == v for m in self.content[l])]
        if not hits:
            sv = str_form(v)
            hits = [i for i, l in enumerate(self.leaders) if any(isinstance(m, str) and m == sv for m in self.content[l])]
        if len(hits) > 1:
            raise ValueError(f"value {v!r} is in several groups {hits}")
        return hits[0] if hits else None

    def nan_is_alone(self):
        if self.nan_group is None:
            return False
        l = self.leaders[self.nan_group]
        return isinstance(l, str) and l == self.str_nan and len(self.content[l]) == 1


def compare_partition(ref: RefTransform, in_values, out_values, output_dtype, dropna):
    """compares the implementation's output column with the reference mapping.
    returns (violations list of (kind, what), flags dict)"""
    viol = []
    g2l, l2g = {}, {}
    for pos, (v, o) in enumerate(zip(in_values, out_values)):
        g = ref.group_of(v)
        if g is None:
            viol.append(("no-group", f"row {pos}: training value {v!r} belongs to no group of values_orders"))
            continue
        if is_missing(v) and not dropna:
            if not is_missing(o):
                viol.append(("nan-not-kept", f"row {pos}: missing value mapped to {o!r} although dropna=False"))
            continue
        if is_missing(o):
            viol.append(("missing-output", f"row {pos}: value {v!r} (group {g}) mapped to a missing output"))
            continue
        g2l.setdefault(g, set()).add(o)
        l2g.setdefault(o, set()).add(g)
    for g, labs in sorted(g2l.items()):
        if len(labs) > 1:
            viol.append(("group-split", f"group {g} (leader {ref.leaders[g]!r}) receives several labels {sorted(map(repr, labs))}"))
    for lab, gs in sorted(l2g.items(), key=lambda kv: repr(kv[0])):
        if len(gs) > 1:
            viol.append(("label-collision", f"distinct groups {sorted(gs)} (leaders {[ref.leaders[g] for g in sorted(gs)]!r}) share the label {lab!r}"))
    if output_dtype == "float" and not viol:
        # labels are the ranks in list order
        for g, labs in g2l.items():
            lab = next(iter(labs))
            try:
                ok = float(lab) == float(g)
            except (TypeError, ValueError):
                ok = False
            if not ok:
                viol.append(("float-rank", f"group {g} (leader {ref.leaders[g]!r}) has label {lab!r}, expected its rank {g}"))
    return viol, {"groups_seen": len(g2l)}
