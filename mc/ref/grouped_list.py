"""RefGroupedList: the boring reference model of GroupedList = ordered list of (leader, members).

Values are compared with ==; `norm` maps a value to a hashable canonical token so that 1, 1.0 and
numpy.float64(1.0) (GroupedList.sort() goes through numpy and changes the Python type of leaders,
which the property does not speak about) are the same value."""
from __future__ import annotations

import math


def norm(v):
    if isinstance(v, str):
        return ("s", str(v))
    if isinstance(v, bool):
        return ("b", bool(v))
    try:
        f = float(v)
    except (TypeError, ValueError):
        return ("o", repr(v))
    if math.isnan(f):
        return ("nan",)
    return ("n", f)


def nsorted(values):
    return sorted(norm(v) for v in values)


class RefGroupedList:
    def __init__(self, groups=()):
        self.g = [(k, list(m)) for k, m in groups]

    # constructors ---------------------------------------------------------------------------
    @classmethod
    def from_list(cls, lst):
        return cls([(v, [v]) for v in lst])

    @classmethod
    def from_dict(cls, dic):
        """precondition (documented in the constructor): every value occurs once over all member
        lists; a key that is a member of another key's list has no members of its own"""
        out = []
        for k, members in dic.items():
            elsewhere = [v for kk, mm in dic.items() if kk != k for v in mm]
            if k in elsewhere:
                continue
            m = list(members)
            if k not in m:
                m = m + [k]
            out.append((k, m))
        return cls(out)

    def copy(self):
        return RefGroupedList(self.g)

    # observers ------------------------------------------------------------------------------
    def leaders(self):
        return [k for k, _ in self.g]

    def values(self):
        return [v for _, m in self.g for v in m]

    def find(self, k):
        for i, (kk, _) in enumerate(self.g):
            if norm(kk) == norm(k):
                return i
        raise KeyError(k)

    def get(self, k):
        for kk, m in self.g:
            if norm(kk) == norm(k):
                return list(m)
        return []

    def group_of(self, v):
        for k, m in self.g:
            if any(norm(v) == norm(e) for e in m):
                return (True, k)
        return (False, v)

    # operations -----------------------------------------------------------------------------
    def group(self, d, k):
        if norm(d) == norm(k):
            return
        i = self.find(d)
        md = self.g[i][1]
        del self.g[i]
        j = self.find(k)
        self.g[j] = (k, md + self.g[j][1])

    def group_list(self, ds, k):
        for d in ds:
            self.group(d, k)

    def append(self, v):
        self.g.append((v, [v]))

    def update(self, dic):
        for k, m in dic.items():
            try:
                i = self.find(k)
                self.g[i] = (k, list(m))
            except KeyError:
                self.g.append((k, list(m)))

    def remove(self, k):
        del self.g[self.find(k)]

    def pop(self, i):
        del self.g[i]

    def sorted(self):
        s = [x for x in self.g if isinstance(x[0], str)]
        f = [x for x in self.g if not isinstance(x[0], str)]
        return RefGroupedList(sorted(s, key=lambda x: x[0]) + sorted(f, key=lambda x: x[0]))

    def sorted_by(self, ordering):
        return RefGroupedList([self.g[self.find(k)] for k in ordering])

    def replace_group_leader(self, k, m):
        i = self.find(k)
        self.g[i] = (m, self.g[i][1])

    def canon(self):
        return tuple((norm(k), tuple(nsorted(m))) for k, m in self.g)
