"""RefChained: bottom-up, level by level; a current modality of the level whose frequency over all rows
(missing included) is < min_freq is merged into its parent; frequencies are recomputed after each level."""
from __future__ import annotations

import collections
from fractions import Fraction as F


def ref_chained(levels, counts, n_other, min_freq):
    """levels: list of dict parent -> children (level 1 over leaves, level 2 over level-1 parents, ...)
    counts: leaf -> count; n_other: rows that are missing / unknown.
    returns (leaf -> final modality, at_threshold flag)"""
    n = sum(counts.values()) + n_other
    thr = F(repr(float(min_freq)))
    cur = {v: v for v in counts}
    at_threshold = False
    for lvl in levels:
        freq = collections.Counter()
        for v, c in counts.items():
            freq[cur[v]] += c
        parent = {c: p for p, ch in lvl.items() for c in ch}
        parent.update({p: p for p in lvl})
        new = dict(cur)
        for v in counts:
            m = cur[v]
            if m in parent:
                fr = F(freq[m], n)
                if fr == thr:
                    at_threshold = True
                if fr < thr:
                    new[v] = parent[m]
        cur = new
    return cur, at_threshold
