"""Textbook statistics written from the formulas (no scipy): chi2 (with / without Yates), Cramér's V,
Tschuprow's T (as AutoCarver defines it for a binary target: V / (r-1)^(1/4)), Kruskal-Wallis H with
tie correction, Pearson r, Spearman rho.  Inputs are small Python lists; rates are exact Fractions."""
from __future__ import annotations

import math
from fractions import Fraction as F


def chi2(table, yates=False):
    """table: list of rows (lists of counts). None when a row or column is empty (statistic undefined)"""
    R = [sum(r) for r in table]
    C = [sum(c) for c in zip(*table)]
    n = sum(R)
    if n == 0 or any(r == 0 for r in R) or any(c == 0 for c in C):
        return None
    dof = (len(R) - 1) * (len(C) - 1)
    s = 0.0
    for i, r in enumerate(table):
        for j, o in enumerate(r):
            e = R[i] * C[j] / n
            d = o - e
            if yates and dof == 1:
                d = abs(d) - min(0.5, abs(d))
            s += d * d / e
    return s


def cramerv_binary(table, yates=False):
    """sqrt(chi2/n) -- AutoCarver's definition for a 2-column crosstab"""
    c = chi2(table, yates)
    if c is None:
        return None
    return math.sqrt(c / sum(map(sum, table)))


def tschuprowt_binary(table, yates=False):
    v = cramerv_binary(table, yates)
    if v is None:
        return None
    if len(table) < 2:
        return None
    return v / math.sqrt(math.sqrt(len(table) - 1))


def cramerv_general(table, yates=False):
    c = chi2(table, yates)
    if c is None:
        return None
    n = sum(map(sum, table))
    k = min(len(table), len(table[0])) - 1
    if k <= 0:
        return None
    return math.sqrt(c / n / k)


def tschuprowt_general(table, yates=False):
    c = chi2(table, yates)
    if c is None:
        return None
    n = sum(map(sum, table))
    d = math.sqrt((len(table) - 1) * (len(table[0]) - 1))
    if d <= 0:
        return None
    return math.sqrt(c / n / d)


def ranks(values):
    """average ranks (1-based)"""
    order = sorted(range(len(values)), key=lambda i: values[i])
    rk = [0.0] * len(values)
    i = 0
    while i < len(order):
        j = i
        while j + 1 < len(order) and values[order[j + 1]] == values[order[i]]:
            j += 1
        avg = (i + j) / 2 + 1
        for t in range(i, j + 1):
            rk[order[t]] = avg
        i = j + 1
    return rk


def kruskal(groups):
    """Kruskal-Wallis H with tie correction; None when undefined (a group is empty, < 2 groups, or all
    values identical)"""
    if len(groups) < 2 or any(len(g) == 0 for g in groups):
        return None
    allv = [v for g in groups for v in g]
    n = len(allv)
    rk = ranks(allv)
    h = 0.0
    pos = 0
    for g in groups:
        r = sum(rk[pos : pos + len(g)])
        h += r * r / len(g)
        pos += len(g)
    h = 12.0 / (n * (n + 1)) * h - 3 * (n + 1)
    # tie correction
    counts = {}
    for v in allv:
        counts[v] = counts.get(v, 0) + 1
    t = sum(c**3 - c for c in counts.values())
    denom = 1 - t / (n**3 - n) if n > 1 else 0
    if denom == 0:
        return None
    return h / denom


def pearson(x, y):
    n = len(x)
    if n < 2:
        return None
    mx, my = sum(x) / n, sum(y) / n
    sxx = sum((a - mx) ** 2 for a in x)
    syy = sum((b - my) ** 2 for b in y)
    if sxx == 0 or syy == 0:
        return None
    sxy = sum((a - mx) * (b - my) for a, b in zip(x, y))
    return sxy / math.sqrt(sxx * syy)


def spearman(x, y):
    return pearson(ranks(x), ranks(y))


def mean_fraction(values):
    return F(sum(F(v).limit_denominator(10**9) for v in values), len(values))


def correlation_ratio(groups):
    """eta = sqrt(SS_between / SS_total): the R of the one-way ANOVA / of the OLS regression of x on the class"""
    groups = [g for g in groups if len(g) > 0]
    allv = [v for g in groups for v in g]
    n = len(allv)
    if n < 2 or len(groups) < 2:
        return None
    mean = sum(allv) / n
    sst = sum((v - mean) ** 2 for v in allv)
    if sst == 0:
        return None
    ssb = sum(len(g) * ((sum(g) / len(g)) - mean) ** 2 for g in groups)
    return math.sqrt(max(ssb / sst, 0.0))
