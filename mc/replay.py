"""Replay one violation artefact on the real code, without any explorer:
   cd /verif && /venv/bin/python -m mc.replay replays/<ID>/<sha>.json
prints the verdict for that single case; exit 1 if it still violates, 0 otherwise."""
import importlib
import json
import sys

from . import common


def main():
    path = sys.argv[1]
    common.bootstrap("mc.replay")
    with open(path) as f:
        payload = json.load(f)
    prop = payload["property"]
    mod = importlib.import_module(f"mc.checks.{prop.lower()}")
    res1 = mod.replay(payload["case"])
    res2 = mod.replay(payload["case"])
    v1 = [v.get("what") for v in res1.get("violations", [])]
    v2 = [v.get("what") for v in res2.get("violations", [])]
    if v1 != v2:
        print("HARNESS ERROR: replay is not deterministic", v1, v2)
        sys.exit(2)
    print(json.dumps(common.jsonable({"property": prop, "outcome": res1.get("outcome"), "violations": res1.get("violations", [])}), indent=1)[:6000])
    if v1:
        print(f"VIOLATION property={prop} replay={path}")
        sys.exit(1)
    print(f"OK property={prop} (case does not violate on the current tree)")


if __name__ == "__main__":
    main()
