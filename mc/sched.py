"""E3: owning the nondeterminism of AutoCarver from outside the repository.

Seams (module-level names rebound by the harness, no source change):
  * `set`  in base_discretizers / discretizers / base_carver / base_selector -> CtlSet: deduplicates like set(),
    iteration order decided by the explorer (this is what PYTHONHASHSEED decides in reality)
  * `Pool` in base_discretizers / quantitative_discretizers / type_discretizers -> StubPool: tasks are pickled
    (process isolation), executed in an order decided by the explorer, results delivered in an order decided by
    the explorer (imap_unordered) or through handles (apply_async)
  * `shuffle` in selectors.base_selector -> controlled permutation

Explorer = stateless, deviation-bounded: a PLAN (list of choices) is replayed, every later choice point takes the
default 0; the run records its trace of choice points [(site, n_options)], from which the deviations are derived.
"""
from __future__ import annotations

import itertools
import math
import pickle

FEATURE_NAMES: set = set()
PLAN: list = []
TRACE: list = []
GLOBAL_RANK: dict = {}


def reset(plan=(), names=(), rank=None):
    global PLAN, TRACE, FEATURE_NAMES, GLOBAL_RANK
    PLAN = list(plan)
    TRACE = []
    FEATURE_NAMES = set(names)
    GLOBAL_RANK = dict(rank or {})


def choose(site, n_options):
    """next choice; default 0; a plan entry out of range is a hard error (divergent replay)"""
    i = len(TRACE)
    c = PLAN[i] if i < len(PLAN) else 0
    if c >= n_options:
        raise RuntimeError(f"divergent replay: choice {c} at point {i} ({site}) has only {n_options} options")
    TRACE.append((site, n_options))
    return c


def nth_permutation(items, k):
    items = list(items)
    out = []
    n = len(items)
    for i in range(n, 0, -1):
        f = math.factorial(i - 1)
        out.append(items.pop(k // f))
        k %= f
    return out


class CtlSet(list):
    """stand-in for set(iterable) as used by the library (list(set(x)), len(set(x)), iteration)"""

    def __init__(self, it=()):
        uniq = list(dict.fromkeys(it))
        try:
            uniq.sort(key=lambda v: (GLOBAL_RANK.get(v, 0), repr(v)))
        except TypeError:
            pass
        if len(uniq) >= 2 and all(isinstance(u, str) and u in FEATURE_NAMES for u in uniq):
            k = choose(f"set{len(uniq)}", math.factorial(len(uniq)))
            uniq = nth_permutation(uniq, k)
        super().__init__(uniq)


class _Handle:
    def __init__(self, value):
        self._v = value

    def get(self, timeout=None):
        return self._v


class StubPool:
    def __init__(self, processes=None):
        self.n = processes
        self._pending = []

    def __enter__(self):
        return self

    def __exit__(self, *a):
        return False

    @staticmethod
    def _run(f, args):
        f2, a2 = pickle.loads(pickle.dumps((f, args)))
        return pickle.loads(pickle.dumps(f2(*a2)))

    def imap_unordered(self, f, iterable):
        items = list(iterable)
        n = len(items)
        exec_order = nth_permutation(range(n), choose(f"pool.imap.exec{n}", math.factorial(n))) if n >= 2 else list(range(n))
        results = {}
        for i in exec_order:
            results[i] = self._run(f, (items[i],))
        done_order = nth_permutation(range(n), choose(f"pool.imap.done{n}", math.factorial(n))) if n >= 2 else list(range(n))
        return [results[i] for i in done_order]

    def apply_async(self, f, args=()):
        # tasks are submitted one by one by the library and collected with .get() in submission order: the only
        # freedom is when each task runs; running it at submission or lazily at get() is equivalent for task
        # functions without shared state, which is exactly what the pickling round trip enforces here
        return _Handle(self._run(f, args))


def ctl_shuffle(lst):
    n = len(lst)
    if n >= 2:
        k = choose(f"shuffle{n}", math.factorial(n))
        lst[:] = nth_permutation(list(lst), k)


def install(seams=("set", "pool", "shuffle")):
    import AutoCarver.carvers.base_carver as bc
    import AutoCarver.discretizers.discretizers as dd
    import AutoCarver.discretizers.utils.base_discretizers as bd
    import AutoCarver.discretizers.utils.quantitative_discretizers as qd
    import AutoCarver.discretizers.utils.type_discretizers as td
    import AutoCarver.selectors.base_selector as bs

    if "set" in seams:
        for m in (bd, dd, bc, bs):
            m.set = CtlSet
    if "pool" in seams:
        for m in (bd, qd, td):
            m.Pool = StubPool
    if "shuffle" in seams:
        bs.shuffle = ctl_shuffle


def uninstall():
    import multiprocessing
    import random

    import AutoCarver.carvers.base_carver as bc
    import AutoCarver.discretizers.discretizers as dd
    import AutoCarver.discretizers.utils.base_discretizers as bd
    import AutoCarver.discretizers.utils.quantitative_discretizers as qd
    import AutoCarver.discretizers.utils.type_discretizers as td
    import AutoCarver.selectors.base_selector as bs

    for m in (bd, dd, bc, bs):
        if "set" in m.__dict__:
            del m.__dict__["set"]
    for m in (bd, qd, td):
        m.Pool = multiprocessing.Pool
    bs.shuffle = random.shuffle


def deviations(trace, d, max_alternatives=None):
    """all plans with <= d non-default choices over the recorded trace (d=0: the default plan only)"""
    plans = [[]]
    points = [(i, n) for i, (_s, n) in enumerate(trace) if n > 1]
    for r in range(1, d + 1):
        for sub in itertools.combinations(points, r):
            ranges = []
            for _i, n in sub:
                alts = list(range(1, n))
                if max_alternatives and len(alts) > max_alternatives:
                    step = len(alts) / max_alternatives
                    alts = sorted({alts[int(j * step)] for j in range(max_alternatives)} | {alts[-1]})
                ranges.append(alts)
            for vals in itertools.product(*ranges):
                plan = [0] * (sub[-1][0] + 1)
                for (i, _n), v in zip(sub, vals):
                    plan[i] = v
                plans.append(plan)
    return plans
