"""C14 — selectors return the best-ranked, mutually uncorrelated features (E1 + shuffle seam)."""
from __future__ import annotations

import itertools
import math

import numpy as np
import pandas as pd

from .. import sched
from ..common import pmap
from ..ref import stats
from . import sel_space as S

PROP = "C14"
TOL = 1e-9


def build_frame(case):
    qa, la = S.quant_alphabet(case["target"]), S.qual_alphabet(case["target"])
    data = {}
    for name in case["qcols"]:
        data[name] = pd.Series(qa[name.rstrip("_")], dtype=float)
    for name in case["lcols"]:
        data[name] = pd.Series(la[name.rstrip("_")], dtype=object)
    X = pd.DataFrame(data)
    if case.get("columns"):
        X = X[case["columns"]]
    y = pd.Series(S.target(case["target"]))
    return X, y


def make_selector(case):
    from AutoCarver.selectors import ClassificationSelector, RegressionSelector
    from AutoCarver.selectors.filters import cramerv_filter, pearson_filter, spearman_filter, tschuprowt_filter

    cls = ClassificationSelector if case["selector"] == "classification" else RegressionSelector
    kw = dict(
        quantitative_filters=[spearman_filter if case.get("qfilter", "spearman") == "spearman" else pearson_filter],
        qualitative_filters=[tschuprowt_filter if case.get("lfilter", "tschuprowt") == "tschuprowt" else cramerv_filter],
        colsample=case.get("colsample", 1.0),
        thresh_corr=case["thresh_corr"],
    )
    return cls(case["n_best"], qualitative_features=list(case["lcols"]) or None, quantitative_features=list(case["qcols"]) or None, **kw)


def measures_for(case, X, y):
    """reference association of every column with the target, per convention. returns
    {col: [m_conv0, m_conv1]} (None = undefined / fails a threshold) and the F09 variant for regression"""
    yl = y.tolist()
    out, variant = {}, {}
    for c in case["qcols"]:
        col = X[c].tolist()
        if not S.usable(col):
            out[c] = [None, None]
            variant[c] = None
            continue
        if case["selector"] == "classification":
            h = S.kruskal_by_target(col, yl)
            out[c] = [h, h]
        else:
            xs, ys = S.pair_complete(col, yl)
            r = stats.pearson(xs, ys)
            out[c] = [None, None] if r is None else [abs(r), abs(r)]
            d = None if r is None else 1 - r
            variant[c] = None if (d is None or abs(d) < 1e-15) else d
    for c in case["lcols"]:
        col = X[c].tolist()
        if not S.usable(col):
            out[c] = [None, None]
            continue
        if case["selector"] == "classification":
            out[c] = S.tschuprowt(col, yl)
        else:
            h = S.kruskal_by_feature(col, yl)
            out[c] = [h, h]
    return out, variant


def pair_assoc(case, X, a, b, quantitative):
    """association between two features as the configured filter measures it -> (min, max) over conventions"""
    if quantitative:
        r = S.corr(X[a].tolist(), X[b].tolist(), case.get("qfilter", "spearman"))
        r = 0.0 if r is None else r
        return r, r
    fn = S.tschuprowt if case.get("lfilter", "tschuprowt") == "tschuprowt" else S.cramerv
    vals = [v for v in fn(X[a].tolist(), X[b].tolist()) if v is not None] or [0.0]
    return min(vals), max(vals)


def judge(case, X, got, cols, m, quantitative, complete=True):
    """property-style oracle for one feature type under one measure convention. m: col -> value | None"""
    errs = []
    n_best, tc = case["n_best"], case["thresh_corr"]
    if len(set(got)) != len(got):
        errs.append(f"duplicates in {got}")
    if any(g not in cols for g in got):
        errs.append(f"returned features {got} are not all inputs of this type {cols}")
        return errs
    if any(m[g] is None for g in got):
        errs.append(f"returned a feature whose measure is undefined or fails a threshold: {[g for g in got if m[g] is None]}")
        return errs
    for a, b in zip(got, got[1:]):
        if m[a] < m[b] - TOL * max(1, abs(m[b])):
            errs.append(f"not ordered by decreasing association: {a}={m[a]:.6g} before {b}={m[b]:.6g}")
    if len(got) > n_best:
        errs.append(f"{len(got)} features returned for n_best={n_best}")
    for a, b in itertools.combinations(got, 2):
        lo, _hi = pair_assoc(case, X, a, b, quantitative)
        if lo > tc + 1e-12:
            errs.append(f"returned features {a} and {b} are associated at {lo:.4g} > thresh_corr={tc}")
    if complete:
        for f in cols:
            if f in got or m[f] is None:
                continue
            better = [g for g in got if m[g] >= m[f] - TOL * max(1, abs(m[f]))]
            reason = len(better) >= n_best
            for g in better:
                _lo, hi = pair_assoc(case, X, f, g, quantitative)
                if hi > tc - 1e-12:
                    reason = True
            if not reason:
                errs.append(f"{f} (measure {m[f]:.6g}) is left out without any of the stated reasons; returned {got}")
    return errs


def frame_equal(a, b):
    if list(a.columns) != list(b.columns) or list(a.index) != list(b.index):
        return False
    for c in a.columns:
        if str(a[c].dtype) != str(b[c].dtype):
            return False
        for u, v in zip(a[c].tolist(), b[c].tolist()):
            if S.isnan(u) or S.isnan(v):
                if not (S.isnan(u) and S.isnan(v)):
                    return False
            elif u != v:
                return False
    return True


def reported_measures(case, X, y, sel, viol, ref):
    """the measure values the selector ranks with equal independent recomputation"""
    from AutoCarver.selectors.base_selector import apply_measures

    for dtype, cols in (("float", case["qcols"]), ("str", case["lcols"])):
        if not cols:
            continue
        try:
            tab = S.quiet(apply_measures, X, y, measures=sel.measures[dtype], features=list(cols), **sel.kwargs)
        except Exception as exc:  # noqa
            viol.append({"kind": "apply_measures-raises", "what": f"apply_measures raised {type(exc).__name__}: {str(exc)[:100]}"})
            continue
        name = [c for c in tab.columns if c.endswith("_measure")]
        if not name:
            continue
        name = name[-1]
        for c in cols:
            v = tab.loc[c, name]
            exp = ref[c]
            if name == "distance_measure":
                xs, ys = S.pair_complete(X[c].tolist(), y.tolist())
                r = stats.pearson(xs, ys)
                exp = [None if r is None else 1 - r]
            if all(e is None for e in exp):
                continue
            if S.isnan(v):
                if name == "distance_measure" and any(e is not None and abs(e) < 1e-12 for e in exp):
                    continue  # part of finding F09 (0 is falsy), judged with the selection
                # explanation F21: with x and y reversed the missing value of the feature becomes an (empty) class
                f21 = case["selector"] == "regression" and c in case["lcols"] and any(S.isnan(u) for u in X[c].tolist())
                viol.append({"kind": "measure-undefined", "what": f"{name} of {c} is reported undefined, recomputation gives {exp}", "finding": "F21" if f21 else None})
            elif not any(e is not None and abs(float(v) - e) <= 1e-9 * max(1, abs(e)) for e in exp):
                viol.append({"kind": "measure-differs", "what": f"{name} of {c} is reported as {float(v)!r}, recomputation gives {exp}"})


def run_multi(case):
    """two association measures for the quantitative features of a ClassificationSelector (Kruskal H then R, the chain kept
    alive by thresh_kruskal=+big), thresh_corr=1: every measure contributes its own n_best"""
    from AutoCarver.selectors import ClassificationSelector
    from AutoCarver.selectors.measures import R_measure, kruskal_measure

    X, y = build_frame(case)
    res = {"violations": [], "sample": dict(case)}
    viol = res["violations"]
    yl = y.tolist()
    if case["measures"] == ["cramerv", "tschuprowt"]:
        from AutoCarver.selectors.measures import cramerv_measure, tschuprowt_measure

        cols = list(case["lcols"])
        sel = ClassificationSelector(case["n_best"], qualitative_features=cols, qualitative_measures=[cramerv_measure, tschuprowt_measure], thresh_cramerv=1e18, thresh_corr=1)
        fns = (lambda a, b: S.cramerv(a, b)[1], lambda a, b: S.tschuprowt(a, b)[1])
        if case["target"] == "binary":  # 2x2 tables may be Yates-corrected: keep to the uncorrected convention only when no column is binary
            fns = (lambda a, b: S.cramerv(a, b)[0 if len({v for v in a if not S.isnan(v)}) == 2 else 1], lambda a, b: S.tschuprowt(a, b)[0 if len({v for v in a if not S.isnan(v)}) == 2 else 1])
    else:
        cols = list(case["qcols"])
        sel = ClassificationSelector(case["n_best"], quantitative_features=cols, quantitative_measures=[kruskal_measure, R_measure], thresh_kruskal=1e18, thresh_corr=1)
        fns = (S.kruskal_by_target, S.eta_by_target)
    got = S.quiet(sel.select, X.copy(), y.copy())
    ms = []
    for fn in fns:
        m = {}
        for c in cols:
            col = X[c].tolist()
            m[c] = fn(col, yl) if S.usable(col) else None
        ms.append(m)
    valid = [c for c in cols if all(m[c] is not None and m[c] == m[c] for m in ms)]
    if len(set(got)) != len(got) or any(g not in valid for g in got):
        viol.append({"kind": "multi:invalid", "what": f"two measures: returned {got}, valid candidates {valid}"})
        res["outcome"] = "multi:invalid"
        return res
    n_best = case["n_best"]
    if len(got) > n_best * len(ms):
        viol.append({"kind": "multi:too-many", "what": f"two measures: {len(got)} features returned for n_best={n_best} per measure"})
    last = ms[-1]
    for a, b in zip(got, got[1:]):
        if last[a] < last[b] - TOL * max(1, abs(last[b])):
            viol.append({"kind": "multi:order", "what": f"two measures: not ordered by the last measure: {a}={last[a]:.5g} before {b}={last[b]:.5g}"})
            break
    names = list(case["measures"])
    for mi, m in enumerate(ms):
        for f in valid:
            if f in got:
                continue
            better = [g for g in got if m[g] >= m[f] - TOL * max(1, abs(m[f]))]
            if len(better) < n_best:
                viol.append({"kind": f"multi:omitted-under-{names[mi]}", "what": f"two measures: {f} ({names[mi]}={m[f]:.5g}) is left out although only {len(better)} returned features are at least as good under {names[mi]} (n_best={n_best}); returned {got}"})
                break
    distinct_rank = sorted(valid, key=lambda c: -ms[0][c]) != sorted(valid, key=lambda c: -ms[1][c])
    res["outcome"] = f"multi:{case['target']}:{'rankings-differ' if distinct_rank else 'same-ranking'}:{len(got)}"
    if distinct_rank:
        res["nontrivial"] = repr(sorted((k, str(v)) for k, v in case.items()))
    res["sample"]["returned"] = got
    return res


def run_case(case):
    if case.get("measures"):
        return run_multi(case)
    X, y = build_frame(case)
    X0, y0 = X.copy(deep=True), y.copy(deep=True)
    res = {"violations": [], "sample": dict(case)}
    viol = res["violations"]
    use_seam = case.get("colsample", 1.0) < 1
    if use_seam:
        sched.install(("shuffle",))
        sched.reset(case.get("plan", []))
    try:
        sel = make_selector(case)
        got = S.quiet(sel.select, X, y)
    except AssertionError as exc:
        res["outcome"] = "assert"
        return res
    finally:
        trace = list(sched.TRACE)
        if use_seam:
            sched.reset()
            sched.uninstall()
    res["trace"] = trace
    if not frame_equal(X, X0) or y.tolist() != y0.tolist() or list(y.index) != list(y0.index):
        viol.append({"kind": "input-modified", "what": "select() modified X or y"})
    ref, variant = measures_for(case, X0, y0)
    reported_measures(case, X0, y0, sel, viol, ref)
    if len(set(got)) != len(got) or any(g not in list(case["qcols"]) + list(case["lcols"]) for g in got):
        viol.append({"kind": "not-inputs", "what": f"select returned {got}"})
    tags = []
    for quantitative, cols in ((True, list(case["qcols"])), (False, list(case["lcols"]))):
        if not cols:
            continue
        g = [f for f in got if f in cols]
        errs = None
        for conv in (0, 1):
            m = {c: ref[c][conv] for c in cols}
            e = judge(case, X0, g, cols, m, quantitative, complete=not use_seam)
            if not e:
                errs = []
                break
            errs = e if errs is None else errs
        if errs:
            finding = None
            if quantitative and case["selector"] == "regression":
                e2 = judge(case, X0, g, cols, variant, True, complete=not use_seam)
                if not e2:
                    finding = "F09"
            elif not quantitative and case["selector"] == "regression":
                # F21 variant: a qualitative feature with missing values has an undefined measure
                v21 = {c: (None if any(S.isnan(u) for u in X0[c].tolist()) else ref[c][0]) for c in cols}
                if not judge(case, X0, g, cols, v21, False, complete=not use_seam):
                    finding = "F21"
            viol.append({"kind": ("quantitative:" if quantitative else "qualitative:") + errs[0].split(":")[0][:40], "what": f"{'quantitative' if quantitative else 'qualitative'} features: {errs[0]}", "finding": finding})
        vals = sorted(round(v, 9) for v in (ref[c][0] for c in cols) if v is not None)
        if len(set(vals)) >= 2:
            tags.append("q" if quantitative else "l")
        if len(set(vals)) != len(vals):
            tags.append("tie")
    res["outcome"] = f"{case['selector']}:{case['target']}:{'+'.join(sorted(set(tags))) or 'flat'}:{len(got)}"
    if tags:
        res["nontrivial"] = repr(sorted((k, str(v)) for k, v in case.items()))
    res["sample"]["returned"] = got
    return res


def replay(case):
    r = run_case(case)
    r.pop("trace", None)
    return r


def enumerate_cases(tier, seed):
    cases = []
    qnames = ["copy", "mono", "neg", "noisy1", "noisy2", "indep1", "indep2", "const", "halfnan", "copy_"]
    lnames = ["qcopy", "qrename", "qcoarse", "qnoisy", "qindep", "qindep3", "qconst", "qnan"]
    for selector, targets in (("classification", ["binary", "multiclass"]), ("regression", ["continuous"])):
        for target in targets:
            kq = 3
            qsets = list(itertools.combinations(qnames, kq))
            lsets = list(itertools.combinations(lnames, 3))
            if tier == "quick":
                qsets, lsets = qsets[:: 2], lsets[:: 2]
            else:
                qsets += list(itertools.combinations(qnames[:8], 4))
            for n_best in (1, 2, 3):
                for tc in (1, 0.9, 0.5):
                    for qf in ("spearman", "pearson"):
                        for qs in qsets:
                            if tier == "quick" and ((n_best, tc) in ((3, 0.9), (1, 0.5)) or (qf == "pearson" and (tc == 1 or n_best == 1))):
                                continue
                            cases.append({"selector": selector, "target": target, "qcols": list(qs), "lcols": [], "n_best": n_best, "thresh_corr": tc, "qfilter": qf})
                    for lf in ("tschuprowt", "cramerv") if tier != "quick" else ("tschuprowt",):
                        for ls in lsets:
                            if tier == "quick" and (n_best, tc) in ((3, 0.9), (1, 0.5)):
                                continue
                            cases.append({"selector": selector, "target": target, "qcols": [], "lcols": list(ls), "n_best": n_best, "thresh_corr": tc, "lfilter": lf})
            # mixed types in one call
            for qs, ls in zip(qsets[:: 7], itertools.cycle(lsets[:: 5])):
                cases.append({"selector": selector, "target": target, "qcols": list(qs), "lcols": list(ls), "n_best": 2, "thresh_corr": 0.9})
            # two measures (Kruskal H and R) on columns whose rankings differ; thresh_corr=1
            if selector == "classification":
                mq = ["noisy1", "noisy2", "halfnan", "strongnan", "strongnan2", "indep2", "copy"]
                for ksz in (3, 4):
                    for qs in itertools.combinations(mq, ksz):
                        for n_best in (1, 2):
                            cases.append({"selector": selector, "target": target, "qcols": list(qs), "lcols": [], "n_best": n_best, "thresh_corr": 1, "measures": ["kruskal", "R"]})
            if selector == "classification":  # two chi2-based measures on qualitative columns with different numbers of categories
                ml = ["qcopy", "qcoarse", "qnoisy", "qindep", "qindep3", "qnan"]
                for ls in itertools.combinations(ml, 3):
                    for n_best in (1, 2):
                        cases.append({"selector": selector, "target": target, "qcols": [], "lcols": list(ls), "n_best": n_best, "thresh_corr": 1, "measures": ["cramerv", "tschuprowt"]})
            # correlated cluster with a feature ranked in between (first > second > shadow of first), every column order
            for perm in itertools.permutations(["qe0", "qe56", "qe012"]):
                for tc in (0.45, 0.75):
                    for lf in ("tschuprowt", "cramerv") if tier != "quick" else ("tschuprowt",):
                        cases.append({"selector": selector, "target": target, "qcols": [], "lcols": list(perm), "n_best": 3, "thresh_corr": tc, "lfilter": lf})
            if selector == "classification":
                for perm in itertools.permutations(["clfirst", "clsecond", "clshadow"]):
                    for qf in ("spearman", "pearson"):
                        cases.append({"selector": selector, "target": target, "qcols": list(perm), "lcols": [], "n_best": 3, "thresh_corr": 0.6, "qfilter": qf})
            # colsample < 1: every outcome of shuffle (explored through the seam)
            for qs in qsets[:: 9 if tier == "quick" else 4]:
                for n_best in (2, 3):
                    cases.append({"selector": selector, "target": target, "qcols": list(qs), "lcols": [], "n_best": n_best, "thresh_corr": 0.9, "colsample": 0.5})
    return cases


def run(tier, seed, rep):
    base = enumerate_cases(tier, seed)
    rep.rule = (
        "E1: frames of 12 rows whose columns are every 3-subset (4-subsets in thorough) of a column alphabet defined relative to the target "
        "(copy, strictly monotone image, negation, duplicate, two noisy variants, two independent patterns, constant, half-missing; "
        "qualitative: copy, renamed copy, coarsening, noisy, independent x2, constant, with missing) x target type (binary, 3-class, "
        "continuous) x n_best {1,2,3} x thresh_corr {1,0.9,0.5} x filters; colsample=0.5 with every outcome of shuffle through the "
        "seam. Oracle (measures recomputed from textbook formulas): returned features are distinct inputs, ordered by decreasing "
        "association, <= n_best, pairwise association <= thresh_corr, every omitted feature has one of the four stated reasons "
        "(completeness clause is DONT_CARE for colsample<1), reported measure values equal recomputation, X and y unchanged. "
        "non-trivial = at least two distinct measure values among the candidates"
    )
    rep.assumptions = [
        "a 2x2 chi2 may or may not be Yates-corrected (accepted under either convention)",
        "ties in the measure: any consistent order is accepted",
        "for colsample < 1 (documented speed-up heuristic) only the soundness clauses are judged",
    ]
    # colsample cases: default plan first, then all deviations of the recorded shuffle choice points
    cases = []
    for c in base:
        if c.get("colsample", 1.0) < 1:
            from ..common import call_guarded

            r0 = call_guarded(run_case, dict(c, plan=[]))
            for plan in sched.deviations(r0.get("trace", []), 2, max_alternatives=None if tier != "quick" else 5):
                cases.append(dict(c, plan=plan))
        else:
            cases.append(c)
    rep.transitions = len(cases)
    for case, res in zip(cases, pmap(run_case, cases, chunksize=8)):
        res.pop("trace", None)
        res["transitions"] = 0
        rep.record(case, res)
