"""C15 — feature selection is invariant under re-encodings that keep the information (E1 metamorphic)."""
from __future__ import annotations

import itertools

import numpy as np
import pandas as pd

from ..common import pmap
from . import c14
from . import sel_space as S

PROP = "C15"
PERFECT_Q = {"copy", "mono", "neg", "copy_"}
PERFECT_L = {"qcopy", "qrename"}


def select(case, X, y, qcols, lcols):
    from AutoCarver.selectors import ClassificationSelector, RegressionSelector

    cls = ClassificationSelector if case["selector"] == "classification" else RegressionSelector
    kw = {}
    if case.get("outliers"):  # outlier measures before the association measure, with thresholds that bite
        from AutoCarver.selectors.measures import iqr_measure, kruskal_measure, zscore_measure

        kw = {"quantitative_measures": [iqr_measure if case["outliers"] == "iqr" else zscore_measure, kruskal_measure], "thresh_iqr": 0.05, "thresh_zscore": 0.05}
    sel = cls(case["n_best"], qualitative_features=list(lcols) or None, quantitative_features=list(qcols) or None, thresh_corr=case["thresh_corr"], **kw)
    return S.quiet(sel.select, X, y)


def shape(got, ref, cols):
    """returned list modulo ties: a feature whose measure is shared with another candidate is replaced by the value"""
    vals = {c: (None if ref[c][0] is None else round(ref[c][0], 7)) for c in cols}
    out = []
    for g in got:
        v = vals.get(g)
        tied = sum(1 for c in cols if vals[c] == v) > 1
        out.append(("tie", v) if tied else g)
    return out


def variants(case, X, y):
    """(name, X', y', qcols', lcols', rename map for result)"""
    q, l = list(case["qcols"]), list(case["lcols"])
    out = []
    for c in q:
        X2 = X.copy()
        X2[c] = -X2[c]
        out.append((f"negate:{c}", X2, y, q, l))
        for a in (2.0, 0.5, 1024.0, 2.0**-40, 2.0**40):  # powers of two: every homogeneous computation scales exactly
            X2 = X.copy()
            X2[c] = X2[c] * a
            out.append((f"scale{a}:{c}", X2, y, q, l))
    for c in l:
        cats = sorted({v for v in X[c].tolist() if not S.isnan(v)})
        if len(cats) <= 3:
            for perm in itertools.permutations(cats):
                if list(perm) == cats:
                    continue
                mp = dict(zip(cats, perm))
                X2 = X.copy()
                X2[c] = X2[c].map(lambda v: mp.get(v, v) if not S.isnan(v) else v).astype(object)
                out.append((f"rename{perm}:{c}", X2, y, q, l))
        mp = {v: f"~{v}~" for v in cats}
        X2 = X.copy()
        X2[c] = X2[c].map(lambda v: mp.get(v, v) if not S.isnan(v) else v).astype(object)
        out.append((f"newnames:{c}", X2, y, q, l))
    cols = list(X.columns)
    for perm in itertools.permutations(range(len(cols))):
        if list(perm) == list(range(len(cols))):
            continue
        pc = [cols[i] for i in perm]
        out.append((f"columns{perm}", X[pc], y, [c for c in pc if c in q], [c for c in pc if c in l]))
    n = len(X)
    if case["selector"] == "classification":
        # only the rows of X are permuted, labels kept: X and y are paired by index label, not by position
        for name, p in (("reverse", list(range(n))[::-1]), ("rot5", [(i + 5) % n for i in range(n)])):
            out.append((f"rows-of-X-only:{name}", X.iloc[p], y, q, l))
    for name, p in (("reverse", list(range(n))[::-1]), ("rot1", [(i + 1) % n for i in range(n)]), ("rot5", [(i + 5) % n for i in range(n)]), ("swap01", [1, 0] + list(range(2, n))), ("swap56", list(range(5)) + [6, 5] + list(range(7, n)))):
        out.append((f"rows:{name}", X.iloc[p], y.iloc[p], q, l))
        out.append((f"rows+reset:{name}", X.iloc[p].reset_index(drop=True), y.iloc[p].reset_index(drop=True), q, l))
    return out


def run_colsample(case):
    """colsample < 1: under EVERY outcome of the shuffle a single exact copy / monotone image of the target is returned
    (each chunk keeps its n_best // 2 >= 1 best features, the copy is the best of its chunk and of the final round)"""
    import math

    from .. import sched
    from AutoCarver.selectors import ClassificationSelector

    X, y = c14.build_frame(case)
    res = {"violations": [], "sample": dict(case), "evaluations": 0}
    q, l = list(case["qcols"]), list(case["lcols"])
    cols = q or l
    perfect = [c for c in cols if c in PERFECT_Q or c in PERFECT_L or c.rstrip("_") in PERFECT_Q]
    assert len(perfect) == 1
    ref, _ = c14.measures_for(case, X, y)
    rivals = [c for c in cols if c != perfect[0] and ref[c][0] is not None and ref[c][0] >= ref[perfect[0]][0] - 1e-9]
    n_plans = math.factorial(len(cols))
    lost = []
    sched.install(("shuffle",))
    try:
        for k in range(n_plans):
            sched.reset([k])
            sel = ClassificationSelector(case["n_best"], qualitative_features=l or None, quantitative_features=q or None, colsample=case["colsample"], thresh_corr=case["thresh_corr"])
            got = S.quiet(sel.select, X.copy(), y.copy())
            if len(sched.TRACE) != 1 or sched.TRACE[0][1] != n_plans:
                raise RuntimeError(f"unexpected choice points {sched.TRACE}")
            res["evaluations"] += 1
            if perfect[0] not in got and not rivals:
                lost.append((sched.nth_permutation(cols, k), got))
    finally:
        sched.reset()
        sched.uninstall()
    res["transitions"] = res["evaluations"]
    if lost:
        res["violations"].append({"kind": "colsample:perfect-feature-lost", "what": f"colsample={case['colsample']}: {perfect[0]} (copy / monotone image of the target) is not returned for {len(lost)} of {n_plans} shuffle outcomes, e.g. order {lost[0][0]} -> {lost[0][1]}"})
    res["outcome"] = f"colsample:{case['target']}:{'rival-tie' if rivals else 'strict'}"
    if not rivals:
        res["nontrivial"] = repr(sorted((k, str(v)) for k, v in case.items()))
    else:
        res["dont_care"] = 1
    return res


def run_replicated(case):
    """the frame replicated `rep` times (N = 12*rep): the statistics grow with N (Kruskal's H of a copy is N-1, its
    p-value underflows), the ranking must not change: a single copy / monotone image of the target is still returned"""
    X, y = c14.build_frame(case)
    rep = case["rep"]
    Xb = pd.concat([X] * rep, ignore_index=True)
    yb = pd.concat([y] * rep, ignore_index=True)
    res = {"violations": [], "sample": dict(case), "evaluations": 1}
    q, l = list(case["qcols"]), list(case["lcols"])
    cols = q or l
    perfect = [c for c in cols if c in PERFECT_Q or c in PERFECT_L or c.rstrip("_") in PERFECT_Q]
    ref, _ = c14.measures_for(case, X, y)
    rivals = [c for c in cols if c != perfect[0] and ref[c][0] is not None and ref[c][0] >= ref[perfect[0]][0] - 1e-9]
    got = select(case, Xb, yb, q, l)
    base = select(case, X, y, q, l)
    if perfect[0] not in got and not rivals:
        res["violations"].append({"kind": "replicated:perfect-feature-lost", "what": f"N={len(Xb)}: {perfect[0]} (copy / monotone image of the target) is not returned: {got} (on the 12-row frame: {base})"})
    elif shape(got, ref, cols) != shape(base, ref, cols) and not rivals:
        res["violations"].append({"kind": "replicated:selection-differs", "what": f"N={len(Xb)}: selection {got} differs from the selection on the 12-row frame {base} (same empirical distribution)"})
    res["transitions"] = 1
    res["outcome"] = f"replicated:{case['target']}:{'rival-tie' if rivals else 'strict'}"
    if not rivals:
        res["nontrivial"] = repr(sorted((k, str(v)) for k, v in case.items()))
    return res


def run_case(case):
    if case.get("rep"):
        return run_replicated(case)
    if case.get("colsample", 1.0) < 1:
        return run_colsample(case)
    X, y = c14.build_frame(case)
    res = {"violations": [], "sample": dict(case), "evaluations": 0}
    viol = res["violations"]
    q, l = list(case["qcols"]), list(case["lcols"])
    try:
        base = select(case, X, y, q, l)
    except AssertionError:
        res["outcome"] = "assert"
        return res
    ref, variant = c14.measures_for(case, X, y)
    cols = q + l
    base_shape = shape(base, ref, cols)
    has_tie = any(isinstance(s, tuple) for s in base_shape)
    regression_quant = case["selector"] == "regression" and bool(q)
    # clause 2: an exact copy of / a strictly monotone image of the target is always returned
    for perfect, tcols in ((PERFECT_Q, q), (PERFECT_L, l)):
        present = [c for c in tcols if c.rstrip("_") in perfect or c in perfect]
        if len(present) == 1 and (case["selector"] == "classification" or present[0] in ("copy", "copy_", "qcopy", "qrename")):
            mp = ref[present[0]][0]
            rivals = [c for c in tcols if c != present[0] and ref[c][0] is not None and mp is not None and ref[c][0] >= mp - 1e-9 * max(1, abs(mp))]
            crowded = len(rivals) >= case["n_best"] or any(
                c14.pair_assoc(case, X, present[0], r, present[0] in q)[1] > case["thresh_corr"] - 1e-12 for r in rivals if r in base
            )
            if present[0] not in base and rivals and crowded and not (regression_quant and present[0] in q):
                res["dont_care"] = res.get("dont_care", 0) + 1  # another candidate is as associated as the copy (e.g. a copy with missing values)
            elif present[0] not in base:
                finding = None
                if regression_quant and present[0] in q:
                    g = [f for f in base if f in q]
                    if not c14.judge(dict(case, qfilter="spearman"), X, g, q, variant, True):
                        finding = "F09"
                viol.append({"kind": "perfect-feature-not-returned", "what": f"{present[0]} is a copy / strictly monotone image of the target but is not returned: {base}", "finding": finding})
    n = 0
    for name, X2, y2, q2, l2 in variants(case, X, y):
        try:
            got = select(case, X2, y2, q2, l2)
        except Exception as exc:  # noqa
            viol.append({"kind": "variant-raises", "what": f"{name}: select raised {type(exc).__name__}: {str(exc)[:80]}"})
            continue
        n += 1
        X2a = X2.loc[y2.index] if list(X2.index) != list(y2.index) else X2  # the reference pairs rows by index label
        ref2, variant2 = c14.measures_for(dict(case, qcols=q2, lcols=l2), X2a, y2)
        got_shape = shape(got, ref2, q2 + l2)
        if got_shape != base_shape:
            finding = None
            if regression_quant and name.startswith(("negate", "scale", "columns", "rows")):
                # F09: both selections are what the 1 - r ranking (undefined at 0) predicts on their own frame
                ok1 = not c14.judge(dict(case, qfilter="spearman"), X, [f for f in base if f in q], q, variant, True)
                ok2 = not c14.judge(dict(case, qfilter="spearman"), X2, [f for f in got if f in q2], q2, variant2, True)
                same_l = [f for f in base if f in l] == [f for f in got if f in l2]
                if ok1 and ok2 and same_l and name.startswith("negate"):
                    finding = "F09"
            viol.append({"kind": "not-invariant:" + name.split(":")[0].split("(")[0].rstrip("0123456789."), "what": f"{name}: base selection {base}, re-encoded selection {got}", "finding": finding})
            if len(viol) > 6:
                break
    res["evaluations"] = n
    res["transitions"] = n
    if has_tie:
        res["dont_care"] = 1
    res["outcome"] = f"{case['selector']}:{case['target']}:{'tie' if has_tie else 'strict'}:{len(base)}"
    if len(base) >= 1 and not all(isinstance(s, tuple) for s in base_shape):
        res["nontrivial"] = repr(sorted((k, str(v)) for k, v in case.items()))
    res["sample"]["returned"] = base
    return res


def replay(case):
    return run_case(case)


def run(tier, seed, rep):
    base = [c for c in c14.enumerate_cases(tier, seed) if c.get("colsample", 1.0) == 1 and c.get("qfilter", "spearman") == "spearman" and c.get("lfilter", "tschuprowt") == "tschuprowt"]
    if tier == "quick":
        base = [c for c in base if (c["n_best"], c["thresh_corr"]) in ((1, 1), (2, 0.9), (3, 0.5), (2, 1))]
        base = base[:: 3]
    # outlier measures (Tukey fences / z-score) in front of the association measure
    for target in ("binary", "multiclass"):
        for outl in ("iqr", "zscore"):
            for sub in (["fence", "noisy1", "indep2"], ["fence2", "noisy2", "indep1"], ["fence", "fence2", "copy"], ["noisy1", "noisy2", "fence"], ["spike", "noisy1", "indep2"], ["spike", "fence", "noisy2"]):
                for n_best in (1, 2, 3):
                    base.append({"selector": "classification", "target": target, "qcols": list(sub), "lcols": [], "n_best": n_best, "thresh_corr": 1, "outliers": outl})
    # colsample < 1: frames with exactly one perfect column among 3 (4 in thorough) candidates of one type, every shuffle outcome
    import itertools

    qn = ["copy", "mono", "noisy1", "noisy2", "indep1", "indep2", "halfnan"]
    ln = ["qcopy", "qnoisy", "qindep", "qindep3", "qnan"]
    for target in ("binary", "multiclass"):
        for names, key in ((qn, "qcols"), (ln, "lcols")):
            for ksz in (3,) if tier == "quick" else (3, 4):
                for sub in itertools.combinations(names, ksz):
                    if sum(1 for c in sub if c in PERFECT_Q or c in PERFECT_L) != 1:
                        continue
                    for n_best in (2, 3):
                        c = {"selector": "classification", "target": target, "qcols": [], "lcols": [], "n_best": n_best, "thresh_corr": 1, "colsample": 0.5}
                        c[key] = list(sub)
                        base.append(c)
                    # the same frame replicated 150 times (N = 1800)
                    c = {"selector": "classification", "target": target, "qcols": [], "lcols": [], "n_best": 1, "thresh_corr": 1, "rep": 150}
                    c[key] = list(sub)
                    base.append(c)
    rep.rule = (
        "colsample=0.5: every outcome of shuffle for frames with a single copy / monotone image of the target among 3-4 candidates; "
        "E1 metamorphic over the C14 frames (default measures and filters): orbit under negating each quantitative column, scaling it by 2, "
        "0.5, 1024, renaming the categories of each qualitative column by every permutation of its <=3 names and by fresh names, every "
        "column permutation (feature lists permuted alike), row generators (reverse, rotations, transpositions; with and without index "
        "reset); oracle: identical returned list modulo ties (features sharing a measure value are compared by value), and a single "
        "exact copy / strictly monotone image of the target among the candidates of its type is always returned (for the Pearson-based "
        "RegressionSelector only exact copies). evaluations = re-encoded selections; non-trivial = base selection with an untied feature"
    )
    rep.assumptions = ["ties in the measure make the order DONT_CARE (compared by value)"]
    rep.transitions = 0
    for case, res in zip(base, pmap(run_case, base, chunksize=2)):
        tr = res.pop("transitions", 0)
        rep.record(case, dict(res, transitions=tr))
