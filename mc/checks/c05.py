"""C05 — unseen data is given fitted labels or rejected, never passed through (E1 + fault alphabet).

For every fitted object of a reduced carving / column space, every frame of 0, 1 or 2 rows over the row
alphabet {seen values, unseen string, unseen number, missing, below-min, above-max, boundary neighbours,
+-1e300}, plus the training frame with one row replaced (3 positions x alphabet)."""
from __future__ import annotations

import itertools
import math

import numpy as np
import pandas as pd

from .. import space
from ..common import pmap
from . import c04, carving_space, disc_space

PROP = "C05"


def isnan(v):
    return v is None or (isinstance(v, float) and math.isnan(v))


def row_alphabet(obj, f, kind, X):
    order = obj.values_orders[f]
    seen = [v for v in pd.unique(X[f]) if not isnan(v)]
    if f in obj.quantitative_features:
        bounds = [b for b in order.values() if not isinstance(b, str) and math.isfinite(b)]
        A = [("seen", seen[0]), ("seen-max", max(seen)), ("below-min", min(seen) - 1.0), ("above-max", max(seen) + 1.0), ("huge", 1e300), ("-huge", -1e300), ("int", 3)]
        for b in bounds[:2]:
            A += [("next(b)", float(np.nextafter(b, np.inf))), ("prev(b)", float(np.nextafter(b, -np.inf)))]
        A.append(("nan", np.nan))
        return A
    A = [("seen", seen[0])]
    if len(seen) > 1:
        A.append(("seen2", seen[-1]))
    A += [("unseen-str", "zz_unseen"), ("unseen-int", 7777), ("unseen-float", 7.5), ("unseen-empty-str", ""), ("unseen-zero", 0), ("nan", np.nan)]
    if kind == "NUMCAT":
        A.append(("str-form-of-seen", space.str_form(seen[0])))
    return A


def rare_category(case):
    """does the training column hold a category rarer than min_freq (=> a default group must exist)?
    True / False / None (a frequency sits exactly on a threshold that is not a binary fraction)"""
    from fractions import Fraction as F

    cells = [c for c in case["cells"]]
    sizes = [sum(c) for c in cells]
    n = sum(sizes) + (sum(case["nan"]) if case.get("nan") else 0)
    mf = case["min_freq"] if case["type"] == "disc" else case["cfg"]["min_freq"]
    t = F(repr(float(mf)))
    res = False
    for sz in sizes:
        if sz == 0:
            continue
        fr = F(sz, n)
        if fr == t and F(float(mf)) != t:
            return None
        if fr < t:
            res = True
    return res


def expectation(obj, f, tag, value, case=None):
    """'reject' or 'label' ('either' when undecidable)"""
    order = obj.values_orders[f]
    if tag == "nan":
        return "label" if order.contains(obj.str_nan) else "reject"
    if f in obj.quantitative_features:
        return "label"
    if order.contains(value) or order.contains(space.str_form(value)):
        return "label"
    if case is not None and case["kind"] in ("CAT", "NUMCAT"):
        # independent of how the default group is named: it exists iff a training category is rarer than min_freq
        rare = rare_category(case)
        return "either" if rare is None else ("label" if rare else "reject")
    return "label" if (obj.str_default is not None and order.contains(obj.str_default)) else "reject"


def label_set(obj, f):
    labs = list(obj.labels_per_values[f].values())
    return labs


def in_labels(v, labs, allow_nan):
    if isnan(v):
        return allow_nan
    return any((not isnan(l)) and v == l and type(v) in (type(l), float, int, np.float64, np.int64, str, np.str_) for l in labs)


def make_frame(X, f, values, quantitative):
    data = {}
    for c in X.columns:
        if c == f:
            data[c] = pd.Series(values, dtype=float if quantitative else object)
        else:
            data[c] = pd.Series([X[c].iloc[0]] * len(values), dtype=X[c].dtype)
    return pd.DataFrame(data)


def check_frame(obj, f, frame, rows, viol, where, case=None):
    """rows: list of (tag, value)"""
    exp = [expectation(obj, f, t, v, case) for t, v in rows]
    must_reject = "reject" in exp
    undecided = "either" in exp
    dropna = obj.features_dropna.get(f, obj.dropna)
    labs = label_set(obj, f)
    desc = [t for t, _ in rows]
    try:
        out = obj.transform(frame)
    except AssertionError as exc:
        if undecided:
            return "reject"
        if not must_reject:
            viol.append({"kind": "spurious-assert", "what": f"{where} {desc}: AssertionError although every row is acceptable: {str(exc)[:80]}"})
        elif f"'{f}'" not in str(exc) and f" {f}" not in str(exc):
            viol.append({"kind": "assert-without-feature", "what": f"{where} {desc}: AssertionError does not name the feature: {str(exc)[:120]}"})
        return "reject"
    except Exception as exc:  # noqa
        viol.append({"kind": f"other-exception-{type(exc).__name__}", "what": f"{where} {desc}: raised {type(exc).__name__}: {str(exc)[:100]} ({space.innermost_frame(exc)})"})
        return "error"
    if must_reject and not undecided:
        viol.append({"kind": "not-rejected", "what": f"{where} {desc}: accepted although a row must be rejected; output {out[f].tolist()[:4]!r}"})
        return "leak"
    vals = out[f].tolist()
    if len(vals) != len(rows):
        viol.append({"kind": "row-count", "what": f"{where} {desc}: {len(vals)} output rows for {len(rows)} input rows"})
    for (t, v), o in zip(rows, vals):
        allow_nan = (t == "nan") and not dropna
        if not in_labels(o, labs, allow_nan):
            viol.append({"kind": "not-a-label", "what": f"{where} row {t}={v!r}: output {o!r} is not in the fitted label set {labs!r}"})
    return "label"


def run_twofeatures(case):
    """two categorical features sharing their vocabulary, fitted together: `home` has rare categories (default group),
    `work` has none.  A value unseen for `home` but known to `work` is valid data: every frame of 1 or 2 rows over the row
    types must be accepted and labelled with fitted labels."""
    from AutoCarver import BinaryCarver
    from AutoCarver.discretizers import Discretizer, QualitativeDiscretizer

    n = 24
    X = pd.DataFrame(
        {
            "home": pd.Series(["A"] * 9 + ["B"] * 9 + ["C"] * 4 + ["r1", "r2"], dtype=object),
            "work": pd.Series(["D", "A", "B"] * 8, dtype=object),
            "q": pd.Series([float(i % 4) for i in range(n)], dtype=float),
        }
    )
    y = pd.Series([0, 0, 0, 1, 0, 0, 1, 1, 0, 1, 1, 1] * 2)
    cls = case["cls"]
    if cls == "Discretizer":
        obj = Discretizer(["q"], ["home", "work"], 0.1, copy=True)
    elif cls == "QualitativeDiscretizer":
        obj = QualitativeDiscretizer(["home", "work"], 0.1, copy=True)
    else:
        obj = BinaryCarver(sort_by="cramerv", min_freq=0.1, quantitative_features=["q"], qualitative_features=["home", "work"], max_n_mod=4, copy=True, output_dtype=case.get("output_dtype", "float"))
    obj.fit(X, y)
    res = {"violations": [], "sample": dict(case), "evaluations": 0}
    viol = res["violations"]
    feats = [f for f in ("home", "work") if f in obj.features]
    rows = [(h, w) for h in ("A", "B", "D", "zz", "r1") for w in ("A", "B", "D")]
    frames = [[r] for r in rows] + [[r1, r2] for r1 in rows for r2 in rows]
    n_ev = 0
    for rs in frames:
        fr = pd.DataFrame({"home": pd.Series([r[0] for r in rs], dtype=object), "work": pd.Series([r[1] for r in rs], dtype=object), "q": pd.Series([1.0] * len(rs))})
        n_ev += 1
        try:
            out = obj.transform(fr)
        except AssertionError as exc:
            viol.append({"kind": "spurious-assert-two-features", "what": f"{cls}: frame {rs} rejected although every value is acceptable: {str(exc)[:100]}"})
            if len(viol) > 3:
                break
            continue
        except Exception as exc:  # noqa
            viol.append({"kind": f"other-exception-{type(exc).__name__}", "what": f"{cls}: frame {rs} raised {type(exc).__name__}: {str(exc)[:100]}"})
            break
        for f in feats:
            labs = label_set(obj, f)
            for o in out[f].tolist():
                if not in_labels(o, labs, False):
                    viol.append({"kind": "not-a-label", "what": f"{cls}: frame {rs}: output {o!r} of {f} is not in the fitted label set {labs!r}"})
                    break
        if len(viol) > 3:
            break
    res["evaluations"] = res["transitions"] = n_ev
    res["outcome"] = f"two-features:{cls}"
    res["nontrivial"] = f"two-features:{cls}:{case.get('output_dtype')}"
    return res


def run_case(case):
    if case.get("twofeatures"):
        return run_twofeatures(case)
    fit, obj = c04.fitted_object(case)
    res = {"violations": [], "sample": dict(case), "evaluations": 0}
    if obj is None:
        res["outcome"] = "fit-" + fit["status"]
        return res
    if "f" not in obj.features:
        res["outcome"] = "dropped"
        return res
    f = "f"
    X = fit["X"]
    quant = f in obj.quantitative_features
    A = row_alphabet(obj, f, case["kind"], X)
    viol = res["violations"]
    outcomes = set()
    n = 0
    # frames of 0, 1, 2 rows
    frames = [[]] + [[a] for a in A] + [list(p) for p in itertools.product(A, repeat=2)]
    for rows in frames:
        fr = make_frame(X, f, [v for _, v in rows], quant)
        outcomes.add(check_frame(obj, f, fr, rows, viol, f"{len(rows)}-row frame", case))
        n += 1
    if quant:
        # frames built from records whose numeric field is None in every row: pandas makes the column `object`
        for k in (1, 2):
            rows = [("nan", np.nan)] * k
            fr = make_frame(X, f, [np.nan] * k, quant)
            fr[f] = pd.Series([None] * k, dtype=object)
            outcomes.add(check_frame(obj, f, fr, rows, viol, f"{k}-row frame built from records (object column holding None)", case))
            n += 1
    # 1-deviation frames of the training frame
    train_vals = X[f].tolist()
    N = len(train_vals)
    for pos in sorted({0, N // 2, N - 1}):
        for t, v in A:
            vals = list(train_vals)
            vals[pos] = v
            rows = [("nan" if isnan(x) else "seen", x) for x in vals]
            rows[pos] = (t, v)
            fr = make_frame(X, f, vals, quant)
            outcomes.add(check_frame(obj, f, fr, rows, viol, f"training frame with row {pos} replaced", case))
            n += 1
    # the user declares, after fit, where future missing values go: the same frames again on the edited object
    if case["type"] == "carver" and not viol and not case.get("kw"):
        from . import c17

        ev = next((e for e in c17.enabled(obj, X, case["kind"]) if e[1] == "NaN"), None)
        if ev is not None:
            try:
                c17.apply_edit(obj, ev)
            except Exception:  # noqa  (the edit itself is C17's business)
                ev = None
        if ev is not None:
            A2 = row_alphabet(obj, f, case["kind"], X)
            for rows in [[a] for a in A2] + [[a, b] for a in A2[:3] for b in A2]:
                fr = make_frame(X, f, [v for _, v in rows], quant)
                outcomes.add("edited:" + check_frame(obj, f, fr, rows, viol, f"after update_discretizer{tuple(ev)}: {len(rows)}-row frame", case))
                n += 1
    res["evaluations"] = n
    res["transitions"] = n
    has_default = obj.str_default is not None and obj.values_orders[f].contains(obj.str_default)
    has_nan = obj.values_orders[f].contains(obj.str_nan)
    res["outcome"] = f"{case['type']}:{case['kind']}:{'default' if has_default else 'nodefault'}:{'nan' if has_nan else 'nonan'}:{'/'.join(sorted(outcomes))}"
    if len(outcomes) >= 2 or has_default:
        res["nontrivial"] = repr(sorted(case.items(), key=str))
    if len(viol) > 6:
        del viol[6:]
    return res


def replay(case):
    return run_case(case)


def enumerate_cases(tier, seed):
    cases, transitions = [], 0
    cells_alpha = [(3, 1), (1, 3), (6, 2), (1, 1)]
    kmax = 3 if tier == "quick" else 4
    for kind in ("QNT", "ORD", "CAT", "NUMCAT"):
        tabs, tr = space.construct(cells_alpha, 2, kmax, ordered=(kind not in ("CAT", "NUMCAT")), keep=lambda st: carving_space.valid_target("binary", st))
        transitions += tr
        if tier == "quick":
            tabs = [t for t in tabs if len(t) == 2 or (1, 1) in t]
        for cells in tabs:
            for nan in (None, (2, 2)):
                for mf in (0.1, 0.25):
                    # discretizer family
                    for cls in ("Discretizer",) if tier == "quick" else [c for c in disc_space.CLASSES_BY_KIND[kind] if c in ("Discretizer", "QuantitativeDiscretizer", "QualitativeDiscretizer")]:
                        cases.append({"type": "disc", "cls": cls, "kind": kind, "cells": [list(c) for c in cells], "nan": list(nan) if nan else None, "min_freq": mf, "target": "binary", "seed": seed, "companion": None, "json": False})
                    # carvers
                    for od in ("float", "str"):
                        for dropna in (True, False):
                            if nan is None and not dropna:
                                continue
                            if tier == "quick" and od == "str" and mf == 0.25:
                                continue
                            cfg = {"sort_by": "tschuprowt", "max_n_mod": 3, "min_freq": mf, "min_freq_mod": None, "output_dtype": od, "dropna": dropna}
                            cases.append({"type": "carver", "carver": "binary", "kind": kind, "cells": [list(x) for x in cells], "nan": list(nan) if nan else None, "dev": None, "cfg": cfg, "seed": seed, "json": False})
    # user-chosen sentinels (every sub-discretizer must receive them) on tables with a rare category
    KW = {"str_nan": "MISSING", "str_default": "OTHERS"}
    for kind in ("QNT", "ORD", "CAT", "NUMCAT"):
        tabs, tr = space.construct(cells_alpha, 2, 3, ordered=(kind not in ("CAT", "NUMCAT")), keep=lambda st: carving_space.valid_target("binary", st))
        for cells in [t for t in tabs if (1, 1) in t][:: 2 if tier == "quick" else 1]:
            for nan in (None, (2, 2)):
                for mf in (0.1, 0.25):
                    cases.append({"type": "disc", "cls": "Discretizer", "kind": kind, "cells": [list(c) for c in cells], "nan": list(nan) if nan else None, "min_freq": mf, "target": "binary", "seed": seed, "companion": None, "json": False, "kw": KW})
                    cfg = {"sort_by": "tschuprowt", "max_n_mod": 3, "min_freq": mf, "min_freq_mod": None, "output_dtype": "str", "dropna": True}
                    cases.append({"type": "carver", "carver": "binary", "kind": kind, "cells": [list(x) for x in cells], "nan": list(nan) if nan else None, "dev": None, "cfg": cfg, "seed": seed, "json": False, "kw": KW})
    # degenerate quantitative / qualitative columns that end up with a single group (constant, almost all missing)
    for kind in ("QNT", "CAT", "ORD"):
        for cells in ([(3, 3)], [(6, 2)], [(1, 1)]):
            for nan in (None, (2, 2), (12, 12)):
                for cls in disc_space.CLASSES_BY_KIND[kind]:
                    if cls in ("OrdinalDiscretizer", "CategoricalDiscretizer"):
                        continue
                    for mf in (0.1, 0.25):
                        cases.append({"type": "disc", "cls": cls, "kind": kind, "cells": [list(c) for c in cells], "nan": list(nan) if nan else None, "min_freq": mf, "target": "binary", "seed": seed, "companion": None, "json": False})
    for cls in ("Discretizer", "QualitativeDiscretizer", "BinaryCarver"):
        for od in ("float", "str") if cls == "BinaryCarver" else ("str",):
            cases.append({"twofeatures": True, "cls": cls, "output_dtype": od, "type": "two", "kind": "CAT"})
    transitions += len(cases)
    return cases, transitions


def run(tier, seed, rep):
    cases, transitions = enumerate_cases(tier, seed)
    rep.rule = (
        "E1 + fault alphabet: fitted Discretizer-family objects and BinaryCarvers (kinds QNT/ORD/CAT/NUMCAT, with/without default group, "
        "with/without missing values at fit, output_dtype x dropna) x every frame of 0, 1 or 2 rows over the row alphabet (seen, "
        "unseen string/int/float, missing, below-min, above-max, boundary neighbour doubles, +-1e300, string form of a seen number) "
        "and the training frame with one row replaced (3 positions x alphabet). Oracle: AssertionError naming the feature exactly when "
        "a row is an unseen category without default group or a missing value never seen at fit; otherwise every output is a fitted "
        "label. evaluations = transforms executed; non-trivial = object with >= 2 distinct outcome classes or a default group"
    )
    rep.assumptions = ["the fitted label set is read from labels_per_values", "+-inf and strings in quantitative columns are outside the stated quantifier"]
    rep.transitions = transitions
    for case, res in zip(cases, pmap(run_case, cases)):
        tr = res.pop("transitions", 0)
        rep.record(case, dict(res, transitions=tr))
