"""E1 state space of discretizer-level columns (C08, C09, parts of C03/C04/C05/C06).

A column = ordered list of cells over the alphabet SIGMA_D (sizes 1..5 with one or two target splits, pure
cells, and for ordinal features the empty cell = value of the ranking never observed) + optional
missing-value cell; x class under test x min_freq x target type x optional companion feature."""
from __future__ import annotations

import numpy as np
import pandas as pd

from .. import space

SIGMA_D = {
    "quick": [(1, 0), (0, 1), (1, 1), (2, 1), (1, 3), (5, 0)],
    "thorough": [(1, 0), (0, 1), (1, 1), (2, 1), (1, 3), (3, 2), (5, 0), (0, 4)],
}
NAN_CELLS = {"quick": [None, (0, 2), (2, 1)], "thorough": [None, (1, 0), (0, 2), (2, 1)]}
MIN_FREQS = {"quick": [0.34, 0.25, 0.1], "thorough": [0.34, 0.3, 0.25, 0.2, 0.1, 0.05]}

CLASSES_BY_KIND = {
    "QNT": ["ContinuousDiscretizer", "QuantitativeDiscretizer", "Discretizer"],
    "ORD": ["OrdinalDiscretizer", "QualitativeDiscretizer", "Discretizer"],
    "CAT": ["CategoricalDiscretizer", "QualitativeDiscretizer", "Discretizer"],
    "NUMCAT": ["QualitativeDiscretizer", "Discretizer"],
}
CARVERS = ["BinaryCarver", "ContinuousCarver", "MulticlassCarver"]
DTYPE_FAMILY = [("float32", [1.0, 2.0, 3.0]), ("int8", [-1, 0, 1]), ("uint8", [0, 1, 2]), ("Int64", [1, 2, 3]), ("float64", [-0.0, 1.0, 2.0]), ("float64", [-1.0, -0.0, 0.5])]


def target_values(cells, nan_cell, target):
    """y for every row (cells in order, then the missing-value cell)"""
    ys = []
    allc = list(cells) + ([nan_cell] if nan_cell is not None else [])
    for i, c in enumerate(allc):
        b = [0] * c[0] + [1] * c[1]
        if target == "binary":
            ys += b
        elif target == "continuous":
            ys += [float(v + i) + 0.5 * (j % 2) for j, v in enumerate(b)]
        else:  # multiclass: classes 'a','b','c'
            ys += ["abc"[(v + i) % 3] for v in b]
    return ys


def companion_column(name, n):
    if name is None:
        return None
    if name == "const_qnt":
        return ("g", "QNT", [1.0] * n)
    if name == "allnan_qnt":
        return ("g", "QNT", [np.nan] * n)
    if name == "distinct_cat":
        return ("g", "CAT", [f"id{i}" for i in range(n)])
    if name == "allnan_cat":
        return ("g", "CAT", [np.nan] * n)
    if name in ("two_ids", "three_ids"):
        k = 2 if name == "two_ids" else 3
        return [(f"g{j}", "CAT", [f"id{j}_{(i * (j + 3)) % n}" for i in range(n)]) for j in range(k)]
    if name == "ok_qnt":
        return ("g", "QNT", [float(i % 2) for i in range(n)])
    if name == "ok_cat":
        return ("g", "CAT", ["u" if i % 3 else "v" for i in range(n)])
    raise ValueError(name)


def frames(case):
    kind = case["kind"]
    cells = [tuple(c) for c in case["cells"]]
    nan = tuple(case["nan"]) if case.get("nan") is not None else None
    vals = list(case["values"]) if case.get("values") is not None else space.raw_values(kind, len(cells), case.get("seed", 0), case.get("scale"))
    xs = []
    for v, c in zip(vals, cells):
        xs += [v] * (c[0] + c[1])
    if nan is not None:
        xs += [np.nan] * (nan[0] + nan[1])
    col = pd.Series(xs, dtype=case.get("xdtype") or (float if kind == "QNT" else object))
    X = pd.DataFrame({"f": col})
    comp = companion_column(case.get("companion"), len(xs))
    for cname, ckind, cvals in comp if isinstance(comp, list) else ([comp] if comp is not None else []):
        X[cname] = pd.Series(cvals, dtype=float if ckind == "QNT" else object)
    y = pd.Series(target_values(cells, nan, case.get("target", "binary")))
    return X, y, vals, comp


def build(case, vals, comp):
    """instantiates the class under test"""
    from AutoCarver import BinaryCarver, ContinuousCarver, MulticlassCarver
    from AutoCarver.discretizers import (
        CategoricalDiscretizer,
        ContinuousDiscretizer,
        Discretizer,
        OrdinalDiscretizer,
        QualitativeDiscretizer,
        QuantitativeDiscretizer,
    )

    cls, kind, mf = case["cls"], case["kind"], case["min_freq"]
    quanti, quali, ordi, vo = [], [], [], {}
    if kind == "QNT":
        quanti.append("f")
    elif kind == "ORD":
        ordi.append("f")
        vo["f"] = [v if isinstance(v, str) else space.str_form(v) for v in vals]
    else:
        quali.append("f")
    if case.get("vocabulary") and kind == "CAT":  # the user lists the known categories of a NON-ordinal feature
        vo["f"] = sorted(vals)
    for cname, ckind, _cv in comp if isinstance(comp, list) else ([comp] if comp is not None else []):
        (quanti if ckind == "QNT" else quali).append(cname)
    extra = dict(case.get("kw") or {})  # user-chosen sentinels (str_nan / str_default)
    if cls == "ContinuousDiscretizer":
        return ContinuousDiscretizer(quanti, mf, copy=True, **{k: v for k, v in extra.items() if k == "str_nan"})
    if cls == "QuantitativeDiscretizer":
        return QuantitativeDiscretizer(quanti, mf, copy=True, **{k: v for k, v in extra.items() if k == "str_nan"})
    if cls == "OrdinalDiscretizer":
        return OrdinalDiscretizer(ordi, mf, values_orders=vo, copy=True)
    if cls == "CategoricalDiscretizer":
        return CategoricalDiscretizer(quali, mf, copy=True)
    if cls == "QualitativeDiscretizer":
        return QualitativeDiscretizer(quali, mf, ordinal_features=ordi, values_orders=vo, copy=True, **extra)
    if cls == "Discretizer":
        return Discretizer(quanti, quali, mf, ordinal_features=ordi, values_orders=vo, copy=True, **extra)
    kw = dict(
        min_freq=mf,
        quantitative_features=quanti,
        qualitative_features=quali,
        ordinal_features=ordi,
        values_orders=vo,
        max_n_mod=case.get("max_n_mod", 3),
        dropna=case.get("dropna", True),
        output_dtype=case.get("output_dtype", "float"),
        copy=True,
        **extra,
    )
    if cls == "BinaryCarver":
        return BinaryCarver(sort_by="tschuprowt", **kw)
    if cls == "MulticlassCarver":
        return MulticlassCarver(sort_by="cramerv", **kw)
    if cls == "ContinuousCarver":
        return ContinuousCarver(**kw)
    raise ValueError(cls)


def fit(case):
    X, y, vals, comp = frames(case)
    out = {"X": X, "y": y, "vals": vals, "comp": comp}
    try:
        obj = build(case, vals, comp)
    except AssertionError as exc:
        out.update(status="init-assert", message=str(exc)[:200])
        return out
    try:
        obj.fit(X, y)
        out.update(status="ok", obj=obj)
    except AssertionError as exc:
        out.update(status="assert", message=str(exc)[:200], obj=obj)
    except Exception as exc:  # noqa
        out.update(status="internal", message=f"{type(exc).__name__}: {str(exc)[:160]}", exc_type=type(exc).__name__, frame=space.innermost_frame(exc), obj=obj)
    return out


def target_for(cls):
    return {"BinaryCarver": "binary", "ContinuousCarver": "continuous", "MulticlassCarver": "multiclass"}.get(cls, "binary")


def valid_target(cells, nan, target):
    ys = target_values(cells, nan, target)
    if target == "binary":
        return 0 in ys and 1 in ys
    if target == "continuous":
        return len(set(ys)) > 2
    return len(set(ys)) > 2


def enumerate_cases(tier, seed, classes="discretizers", custom_sentinels=False):
    cases, transitions = _enumerate_cases(tier, seed, classes)
    if not custom_sentinels:  # only C08's oracle is written against obj.str_nan / obj.str_default
        cases = [c for c in cases if not c.get("kw")]
    return cases, transitions


def _enumerate_cases(tier, seed, classes="discretizers"):
    """returns (cases, transitions)"""
    alpha = SIGMA_D[tier]
    cases = []
    transitions = 0
    if classes == "discretizers":
        kmax = {"quick": 3, "thorough": 4}[tier]
        for kind in ("QNT", "ORD", "CAT", "NUMCAT"):
            a = list(alpha) + ([(0, 0)] if kind == "ORD" else [])
            if tier == "quick":
                tabs, tr = space.construct(a, 1, kmax, ordered=(kind not in ("CAT",)))
                if kind in ("ORD", "QNT"):  # a rare middle value needs >= 4 ordered values to have a choice of neighbours
                    sub = [(1, 0), (0, 1), (2, 1), (5, 0)]
                    t4, tr4 = space.construct(sub, 4, 5, ordered=True)
                    tabs, tr = tabs + t4, tr + tr4
            else:  # full alphabet up to k=3, quick alphabet for k=4
                tabs, tr = space.construct(a, 1, 3, ordered=(kind not in ("CAT",)))
                aq = list(SIGMA_D["quick"]) + ([(0, 0)] if kind == "ORD" else [])
                t4, tr4 = space.construct(aq, 4, 4, ordered=(kind not in ("CAT",)))
                tabs, tr = tabs + t4, tr + tr4
            tabs = [()] + tabs
            transitions += tr
            for cells in tabs:
                for nan in NAN_CELLS[tier] if len(cells) <= 3 else (NAN_CELLS["quick"] if tier != "quick" else [None]):
                    if not cells and nan is None:
                        continue
                    if sum(c[0] + c[1] for c in cells) + (sum(nan) if nan else 0) < 2:
                        continue
                    for cls in CLASSES_BY_KIND[kind]:
                        for mf in MIN_FREQS[tier] if len(cells) <= 3 else [0.34, 0.3, 0.1]:
                            for target in ("binary",) if (tier == "quick" or cls != "Discretizer" or mf not in (0.25, 0.1) or len(cells) > 3) else ("binary", "continuous"):
                                if not valid_target(cells, nan, target):
                                    continue
                                cases.append({"cls": cls, "kind": kind, "cells": [list(c) for c in cells], "nan": list(nan) if nan else None, "min_freq": mf, "target": target, "seed": seed, "companion": None})
        # deeper, cheap: ContinuousDiscretizer alone on longer columns of plain counts
        kdeep = {"quick": 5, "thorough": 5}[tier]
        counts = [(1, 0), (1, 1), (2, 1), (3, 2)] if tier == "quick" else [(1, 0), (1, 1), (2, 1), (1, 3), (3, 2)]
        tabs, tr = space.construct(counts, kmax + 1, kdeep, ordered=True)
        transitions += tr
        for cells in tabs:
            for nan in (None, (2, 1)):
                for mf in MIN_FREQS[tier]:
                    if valid_target(cells, nan, "binary"):
                        cases.append({"cls": "ContinuousDiscretizer", "kind": "QNT", "cells": [list(c) for c in cells], "nan": list(nan) if nan else None, "min_freq": mf, "target": "binary", "seed": seed, "companion": None})
        # comb family for ContinuousDiscretizer: m over-represented values of c rows each and a tail of t single-row values
        # (placed after, before, or in the middle of the frequent values)
        for mf in (0.05, 0.1):
            for c in (2, 3):
                for m in range(1, 16 if tier == "quick" else 19):
                    for t in (0, 3, 6, 9, 14) if tier == "quick" else range(0, 16):
                        n_rows = m * c + t
                        if n_rows < 8 or c / n_rows < 1 / round(1 / mf):  # the m values must really be over-represented
                            continue
                        for place in ("after", "before", "middle"):
                            freq = [(c, 0) if j % 2 else (0, c) for j in range(m)]
                            tail = [(1, 0) if j % 2 else (0, 1) for j in range(t)]
                            cells = freq + tail if place == "after" else (tail + freq if place == "before" else freq[: m // 2] + tail + freq[m // 2 :])
                            transitions += 1
                            cases.append({"cls": "ContinuousDiscretizer", "kind": "QNT", "cells": [list(x) for x in cells], "nan": None, "min_freq": mf, "target": "binary", "seed": seed, "companion": None})
        # quantitative values around zero (a cut point exactly at 0.0; rare negative values merged upwards)
        for cls in ("QuantitativeDiscretizer", "Discretizer"):
            tabs, tr = space.construct([(1, 0), (0, 1), (2, 1), (5, 0), (3, 2)], 2, 4, ordered=True)
            for cells in tabs[:: 3 if tier == "quick" else 1]:
                for shift in (-1.0, -2.0):
                    for mf in (0.34, 0.1):
                        if valid_target(cells, None, "binary"):
                            cases.append({"cls": cls, "kind": "QNT", "cells": [list(c) for c in cells], "nan": None, "min_freq": mf, "target": "binary", "seed": seed, "companion": None, "scale": [1.0, shift]})
        # companion features (a second feature that gets dropped / survives) on the k<=2 tables
        for kind in ("QNT", "ORD", "CAT"):
            a = list(alpha)
            tabs, tr = space.construct(a, 1, 2, ordered=(kind != "CAT"))
            for cells in tabs:
                for compn in ("const_qnt", "allnan_qnt", "distinct_cat", "allnan_cat", "ok_qnt", "ok_cat"):
                    for mf in MIN_FREQS[tier][:2] if tier == "quick" else MIN_FREQS[tier]:
                        if valid_target(cells, None, "binary") and sum(map(sum, cells)) >= 2:
                            cases.append({"cls": "Discretizer", "kind": kind, "cells": [list(c) for c in cells], "nan": None, "min_freq": mf, "target": "binary", "seed": seed, "companion": compn})
        # user-chosen sentinels: every sub-discretizer of the pipelines must receive them
        KW = {"str_nan": "MISSING", "str_default": "OTHERS"}
        for kind in ("QNT", "ORD", "CAT", "NUMCAT"):
            tabs, tr = space.construct(list(alpha), 1, 3 if tier == "quick" else 4, ordered=(kind not in ("CAT", "NUMCAT")))
            for cells in tabs[:: 2 if tier == "quick" else 1]:
                for nan in (None, (0, 2), (2, 1)):
                    for cls in [c for c in CLASSES_BY_KIND[kind] if c in ("Discretizer", "QuantitativeDiscretizer", "QualitativeDiscretizer")]:
                        for mf in (0.34, 0.1):
                            if valid_target(cells, nan, "binary") and sum(map(sum, cells)) + (sum(nan) if nan else 0) >= 2:
                                cases.append({"cls": cls, "kind": kind, "cells": [list(c) for c in cells], "nan": list(nan) if nan else None, "min_freq": mf, "target": "binary", "seed": seed, "companion": None, "kw": KW})
        # unusual but accepted column dtypes (values are small integers, exactly representable in every dtype)
        for xdtype, values in DTYPE_FAMILY:
            tabs, tr = space.construct(list(alpha), 2, min(3, len(values)), ordered=True)
            for cells in tabs[:: 7 if tier == "quick" else 1]:
                for cls in CLASSES_BY_KIND["QNT"]:
                    for mf in (0.34, 0.1):
                        if valid_target(cells, None, "binary"):
                            cases.append({"cls": cls, "kind": "QNT", "cells": [list(c) for c in cells], "nan": None, "min_freq": mf, "target": "binary", "seed": seed, "companion": None, "xdtype": xdtype, "values": values[: len(cells)]})
        # several id-like columns dropped together
        for kind in ("QNT", "CAT"):
            tabs, tr = space.construct(list(alpha), 2, 2, ordered=(kind != "CAT"))
            for cells in tabs:
                for compn in ("two_ids", "three_ids"):
                    if valid_target(cells, None, "binary"):
                        cases.append({"cls": "Discretizer", "kind": kind, "cells": [list(c) for c in cells], "nan": None, "min_freq": 0.34, "target": "binary", "seed": seed, "companion": compn})
    else:  # carvers
        kmax = {"quick": 3, "thorough": 4}[tier]
        mfs = {"quick": [0.34, 0.1], "thorough": [0.34, 0.25, 0.1, 0.05]}[tier]
        nans = {"quick": [None, (0, 2)], "thorough": [None, (0, 2), (2, 1)]}[tier]
        for kind in ("QNT", "ORD", "CAT"):
            a = list(alpha) + ([(0, 0)] if kind == "ORD" else [])
            if tier == "quick":
                tabs, tr = space.construct(a, 1, kmax, ordered=(kind != "CAT"))
            else:
                tabs, tr = space.construct(a, 1, 3, ordered=(kind != "CAT"))
                aq = list(SIGMA_D["quick"]) + ([(0, 0)] if kind == "ORD" else [])
                t4, tr4 = space.construct(aq, 4, 4, ordered=(kind != "CAT"))
                tabs, tr = tabs + t4, tr + tr4
            transitions += tr
            for cells in tabs:
                for nan in nans if len(cells) <= 3 else nans[:2]:
                    if sum(c[0] + c[1] for c in cells) + (sum(nan) if nan else 0) < 2:
                        continue
                    for cls in CARVERS:
                        target = target_for(cls)
                        if not valid_target(cells, nan, target):
                            continue
                        for mf in mfs if len(cells) <= 3 else [0.34, 0.1]:
                            cases.append({"cls": cls, "kind": kind, "cells": [list(c) for c in cells], "nan": list(nan) if nan else None, "min_freq": mf, "target": target, "seed": seed, "companion": None})
            if kind == "QNT":  # unusual but accepted column dtypes
                for xdtype, values in DTYPE_FAMILY:
                    tabsd, _ = space.construct(list(alpha), 2, min(3, len(values)), ordered=True)
                    for cells in tabsd[:: 7 if tier == "quick" else 2]:
                        for cls in CARVERS:
                            target = target_for(cls)
                            if valid_target(cells, None, target):
                                cases.append({"cls": cls, "kind": kind, "cells": [list(c) for c in cells], "nan": None, "min_freq": 0.1, "target": target, "seed": seed, "companion": None, "xdtype": xdtype, "values": values[: len(cells)]})
            # companions with carvers
            tabs2, _ = space.construct(list(alpha), 2, 2, ordered=(kind != "CAT"))
            for cells in tabs2:
                for cls in CARVERS:  # user-chosen sentinels, with and without missing values
                    for nan in (None, (0, 2), (2, 1)):
                        target = target_for(cls)
                        if valid_target(cells, nan, target):
                            cases.append({"cls": cls, "kind": kind, "cells": [list(c) for c in cells], "nan": list(nan) if nan else None, "min_freq": mfs[-1], "target": target, "seed": seed, "companion": None, "kw": {"str_nan": "MISSING", "str_default": "OTHERS"}})
                for compn in ("const_qnt", "allnan_qnt", "distinct_cat", "ok_cat", "two_ids", "three_ids"):
                    for cls in CARVERS:
                        target = target_for(cls)
                        if valid_target(cells, None, target):
                            # id-like columns are dropped only when each value is rarer than min_freq
                            mfc = 0.34 if compn in ("two_ids", "three_ids", "distinct_cat") else mfs[-1]
                            cases.append({"cls": cls, "kind": kind, "cells": [list(c) for c in cells], "nan": None, "min_freq": mfc, "target": target, "seed": seed, "companion": compn})
    transitions += len(cases)
    return cases, transitions
