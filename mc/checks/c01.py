"""C01 — carvers pick the most target-associated viable ordered grouping (E1 + RefCarver)."""
from __future__ import annotations

from .. import space
from ..common import pmap
from ..ref import carver as refcarver
from . import carving_space

PROP = "C01"


def resolved_cfg(case):
    cfg = dict(case["cfg"])
    if cfg.get("min_freq_mod") is None:  # (an explicit 0 means: no minimum)
        cfg["min_freq_mod"] = cfg["min_freq"] / 2
    if case["carver"] == "continuous":
        cfg["sort_by"] = "kruskal"
    return cfg


def observe(case):
    """fits the real carver and an independent Discretizer; returns everything the oracles need"""
    fit = space.fit_carver(case)
    obs = {"fit": fit}
    if fit["status"] != "ok":
        return obs
    disc = space.fit_discretizer(case, fit["X"], fit["y"], fit["vals"])
    obs["disc"] = disc
    if disc["status"] != "ok" or "f" not in disc["disc"].features:
        return obs
    base_order = disc["disc"].values_orders["f"]
    cells = space.cellify(case, case["cells"])
    nan = space.cellify(case, [case["nan"]])[0] if case.get("nan") is not None else None
    base, idx = space.base_cells(case, base_order, fit["vals"], cells, case["kind"])
    obs.update(base=base, raw_to_base=idx, nan=nan, base_order=base_order)
    dev = case.get("dev")
    if dev is not None:
        dcells = space.cellify(case, dev["cells"])
        dbase, _ = space.base_cells(case, base_order, fit["vals"], dcells, case["kind"])
        obs.update(dev_base=dbase, dev_nan=space.cellify(case, [dev["nan"]])[0] if dev.get("nan") is not None else None)
    else:
        obs.update(dev_base=None, dev_nan=None)
    carver = fit["carver"]
    if "f" not in carver.features:
        obs["observed"] = None
        obs["problems"] = []
    else:
        groups, nan_pos, problems = space.grouping_of(carver.values_orders["f"], base_order)
        obs["observed"] = (groups, nan_pos)
        obs["problems"] = problems
    return obs


def run_case(case):
    obs = observe(case)
    fit = obs["fit"]
    res = {"violations": [], "sample": {k: case[k] for k in ("carver", "kind", "cells", "nan", "dev", "cfg")}}
    if fit["status"] == "assert":
        res["outcome"] = "fit-assert"
        return res
    if fit["status"] == "internal":
        # C08's business (internal error instead of a clean outcome); C01 cannot judge optimality here
        res["outcome"] = "fit-internal-error(C08)"
        return res
    if "base" not in obs:
        res["outcome"] = "no-base-discretization"
        if "f" in fit["carver"].features:
            res["violations"].append({"kind": "kept-without-base", "what": "carver keeps the feature although the base Discretizer drops it / fails"})
        return res
    cfg = resolved_cfg(case)
    observed = obs["observed"]
    if obs["problems"]:
        res["outcome"] = "malformed-grouping"
        res["violations"].append({"kind": "malformed", "what": "fitted groups are not unions of base modalities: " + obs["problems"][0]})
        return res
    if observed is not None:
        groups, nan_pos = observed
        flat = [i for g in groups for i in g]
        if flat != sorted(flat) or any(g != list(range(g[0], g[-1] + 1)) for g in groups):
            res["outcome"] = "non-contiguous"
            res["violations"].append({"kind": "non-contiguous", "what": f"fitted groups {groups} are not order-contiguous runs of the base modalities"})
            return res
    nan = obs["nan"]
    if nan is not None and not any(space.is_nan_leader(m) for m in obs["base_order"].values()):
        res["outcome"] = "nan-unknown-to-base"
        return res
    ok, reason, info = refcarver.judge(obs["base"], nan, obs["dev_base"], obs["dev_nan"], cfg, observed)
    res["dont_care"] = info.get("dont_care", 0)
    kept = "kept" if observed is not None else "dropped"
    res["outcome"] = f"{kept}:{'ok' if ok else 'VIOLATION'}"
    if info.get("nontrivial"):
        res["nontrivial"] = space_key(case)
    if not ok:
        res["violations"].append(
            {
                "kind": "not-optimal" if observed is not None else "wrongly-dropped",
                "what": f"{kept}: {reason}",
                "observed": observed,
                "base": [list(c) for c in obs["base"]],
                "dev_base": [list(c) for c in obs["dev_base"]] if obs["dev_base"] is not None else None,
                "finding": None,
            }
        )
    res["sample"]["observed"] = observed
    res["sample"]["base"] = [list(c) for c in obs["base"]]
    return res


def space_key(case):
    return repr((case["carver"], case["kind"], case["cells"], case["nan"], case["dev"], sorted(case["cfg"].items(), key=str)))


def replay(case):
    return run_case(case)


def run(tier, seed, rep, carvers=("binary", "continuous")):
    cases = []
    transitions = 0
    for carver in carvers:
        cs, tr = carving_space.enumerate_cases(carver, tier, seed)
        cases += cs
        transitions += tr
    rep.rule = (
        "E1: BFS over append_cell construction steps (binary cells Sigma_b, continuous cells Sigma_c; k=2..4, thorough adds k=5 "
        "at the default configuration) x kinds ORD/QNT/CAT x deviation-bounded grid over (sort_by, max_n_mod, min_freq, "
        "min_freq_mod, output_dtype), missing-value cell x dropna, dev sample (train with <=1 cell replaced/removed); every "
        "state is fitted with the real carver and judged by RefCarver (brute force over all contiguous groupings, three-valued "
        "viability, both chi2 conventions). non-trivial = >=2 definitely viable candidates with different measures, or none viable"
    )
    rep.assumptions = [
        "base modalities are read from an independently fitted Discretizer(min_freq, same orders)",
        "stage-1 frequencies are taken over the non-missing rows, stage-2 frequencies over all rows",
        "a 2x2 chi2 may or may not be Yates-corrected: a grouping is flagged only if non-optimal under both conventions",
        "ties in target rate make the dev ranking test DONT_CARE; a threshold that is not a binary fraction hit exactly is DONT_CARE",
    ]
    rep.transitions = transitions
    for case, res in zip(cases, pmap(run_case, cases)):
        res["transitions"] = 0
        rep.record(case, res)
    rep.extra["config_deviation_bound"] = 1 if tier == "quick" else 2
