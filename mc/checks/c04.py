"""C04 — transform is exactly the mapping described by the fitted values_orders (E1 + RefTransform)."""
from __future__ import annotations

import json

from .. import space
from ..common import pmap
from ..ref.transform import RefTransform, compare_partition
from . import carving_space, disc_space

PROP = "C04"
BIG_SCALE = [1.0, 202300.0]  # boundaries that differ only beyond 4 significant digits
BIG_SCALE2 = [0.1, 1.7e9]  # ... beyond 10 significant digits (timestamps a tenth of a second apart)
TINY_SCALE = [1e-11, 0.0]  # magnitudes far below any absolute tolerance (capacitances in farad, wavelengths in metres)
TINY_STEP = [2.0**-33, 1.0]  # values 1 + k * 1.2e-10: neighbours closer than 1e-9 at an ordinary magnitude
THIRDS = [1.0 / 3.0, 0.0]  # boundaries with 16 significant decimals (0.333..., 0.666...)


def fitted_object(case):
    if case["type"] == "disc":
        fit = disc_space.fit(case)
        return fit, fit.get("obj") if fit["status"] == "ok" else None
    fit = space.fit_carver(case)
    return fit, fit.get("carver") if fit["status"] == "ok" else None


def same_values(a, b):
    return len(a) == len(b) and all(((u != u) and (v != v)) or u == v for u, v in zip(a, b))


def check_object(obj, X, tag, viol, expect=None):
    """expect: outputs {feature: list} of another object that must implement the same mapping (original vs reloaded)"""
    n_groups = 0
    try:
        out = obj.transform(X.copy())
    except Exception as exc:  # noqa
        viol.append({"kind": f"{tag}transform-raises", "what": f"{tag}transform(X_train) raised {type(exc).__name__}: {str(exc)[:100]}"})
        return 0
    # the same rows under a non-default index (labels are attached by position in the frame, not by index label)
    try:
        Xr = X.copy()
        Xr.index = list(range(len(X) + 6, 6, -1))
        outr = obj.transform(Xr)
        for f in obj.features:
            if not same_values(outr[f].tolist(), out[f].tolist()):
                viol.append({"kind": f"{tag}index-dependent", "what": f"{tag}{f}: transform of the training rows changes when the frame carries the index {list(Xr.index)[:3]}..."})
                break
    except Exception as exc:  # noqa
        viol.append({"kind": f"{tag}transform-raises", "what": f"{tag}transform of the re-indexed training frame raised {type(exc).__name__}: {str(exc)[:100]}"})
    # observers must not change what transform does afterwards
    try:
        obj.summary()
        obj.to_json()
        out2 = obj.transform(X.copy())
        for f in obj.features:
            if not same_values(out2[f].tolist(), out[f].tolist()):
                viol.append({"kind": f"{tag}changed-by-observers", "what": f"{tag}{f}: transform(X_train) differs after summary() / to_json() were called: {out2[f].tolist()[:4]} vs {out[f].tolist()[:4]}"})
                break
    except Exception as exc:  # noqa
        viol.append({"kind": f"{tag}observer-raises", "what": f"{tag}summary()/to_json()/transform sequence raised {type(exc).__name__}: {str(exc)[:100]}"})
    if expect is not None:
        for f in obj.features:
            if f in expect and not same_values(out[f].tolist(), expect[f]):
                viol.append({"kind": f"{tag}differs-from-original", "what": f"{tag}{f}: the rebuilt object labels the training rows differently from the fitted object"})
                break
    for f in obj.features:
        raw = next((r for r, lst in obj.features_casting.items() if f in lst), f)
        ref = RefTransform(obj.values_orders[f], f in obj.quantitative_features, obj.str_nan)
        dropna = obj.features_dropna.get(f, obj.dropna)
        try:
            v, flags = compare_partition(ref, X[raw].tolist(), out[f].tolist(), obj.output_dtype, dropna)
        except ValueError as exc:
            v, flags = [("ill-formed", str(exc))], {"groups_seen": 0}
        n_groups += flags["groups_seen"]
        for kind, what in v[:3]:
            viol.append({"kind": tag + kind, "what": f"{tag}{f}: {what}", "finding": None})
    return n_groups


def run_case(case):
    fit, obj = fitted_object(case)
    res = {"violations": [], "sample": {k: v for k, v in case.items()}}
    if obj is None:
        res["outcome"] = "fit-" + fit["status"]
        return res
    if not obj.features:
        res["outcome"] = "all-dropped"
        return res
    X = fit["X"]
    viol = res["violations"]
    g = check_object(obj, X, "", viol)
    tags = [case["type"], case["kind"], obj.output_dtype, "dropna" if obj.dropna else "keepna"]
    if case.get("nan"):
        tags.append("nan")
    # object rebuilt from JSON
    if case.get("json", True):
        try:
            from AutoCarver import load_carver

            blob = json.loads(json.dumps(obj.to_json()))
            obj2 = load_carver(blob)
            orig = obj.transform(X.copy())
            check_object(obj2, X, "reloaded:", viol, expect={f: orig[f].tolist() for f in obj.features})
            tags.append("json")
        except Exception as exc:  # noqa  (C06 judges the round trip itself)
            tags.append("json-fails(C06)")
    # the same oracle after one manual edit (missing values grouped into the first group; else first 'group' edit)
    if case["type"] == "carver" and case["carver"] != "multiclass" and "f" in obj.features and not viol:
        from . import c17

        import pickle

        evs = c17.enabled(obj, X, case["kind"])
        quant = "f" in obj.quantitative_features
        ev = next((e for e in evs if e[1] == "NaN"), None) or next((e for e in evs if e[0] == "group"), None)
        # ... and after the leader of the first group was renamed / its threshold raised (mode 'replace')
        ev2 = next((e for e in evs if e[0] == "replace" and e[1] != "NaN" and (not quant or e[2] > e[1])), None)
        blob = pickle.dumps(obj)
        for e, tag in ((ev, "edited"), (ev2, "renamed")):
            if e is None:
                continue
            o2 = pickle.loads(blob)
            try:
                c17.apply_edit(o2, e)
            except Exception:  # noqa  (the edit itself is C17's business)
                continue
            check_object(o2, X, f"after update_discretizer{tuple(e)}: ", viol)
            tags.append(tag)
    res["outcome"] = "+".join(tags)
    if g >= 2:
        res["nontrivial"] = repr(sorted(case.items(), key=str))
    res["sample"]["values_orders"] = {f: {repr(k): [repr(x) for x in m] for k, m in obj.values_orders[f].content.items()} for f in obj.features}
    return res


def replay(case):
    return run_case(case)


def enumerate_cases(tier, seed):
    cases, transitions = [], 0
    # A. discretizer family
    dcases, tr = disc_space.enumerate_cases(tier, seed, "discretizers")
    transitions += tr
    for c in dcases:
        if c["cls"] in ("Discretizer", "QuantitativeDiscretizer", "QualitativeDiscretizer") and c["target"] == "binary":
            if tier == "quick" and (c["min_freq"] == 0.25 or len(c["cells"]) > 3):
                continue
            cases.append(dict(c, type="disc"))
    # big-scale quantitative columns: plain counts, up to 6 distinct values
    counts = [(1, 1), (2, 1), (1, 3)]
    tabs, tr = space.construct(counts, 2, 5 if tier == "quick" else 6, ordered=True)
    transitions += tr
    for cells in tabs:
        for cls in ("Discretizer", "QuantitativeDiscretizer", "ContinuousDiscretizer"):  # (the last one never transforms while fitting)
            for mf in (0.1,) if tier == "quick" else (0.1, 0.05, 0.2):
                for sc in (BIG_SCALE, BIG_SCALE2, TINY_SCALE, TINY_STEP):
                    cases.append({"type": "disc", "cls": cls, "kind": "QNT", "cells": [list(c) for c in cells], "nan": None, "min_freq": mf, "target": "binary", "seed": seed, "companion": None, "scale": sc})
    # B. carvers: all four (output_dtype, dropna) combinations
    for carver in ("binary", "continuous"):
        for kind in ("ORD", "QNT", "CAT", "NUMCAT"):
            tabs, tr = carving_space.tables(carver, "CAT" if kind == "NUMCAT" else kind, tier, kmax=3)
            if tier != "quick":  # k=4 over the quick alphabet
                t4, tr4 = carving_space.tables(carver, "CAT" if kind == "NUMCAT" else kind, "quick", kmax=4, alpha=carving_space.alphabet(carver, "quick"))
                tabs, tr = tabs + [t for t in t4 if len(t) == 4], tr + tr4
            transitions += tr
            alpha = carving_space.alphabet(carver, tier)
            for cells in tabs:
                if tier == "quick" and len(cells) == 3 and kind in ("CAT", "NUMCAT") and carver == "continuous":
                    continue
                for nan in (None, alpha[1]):
                    for od in ("float", "str"):
                        for dropna in (True, False):
                            if nan is None and not dropna:
                                continue
                            for scale in ([None, BIG_SCALE, THIRDS] if kind == "QNT" else [None]):
                                cfg = {"sort_by": "tschuprowt", "max_n_mod": 3, "min_freq": 0.1, "min_freq_mod": None, "output_dtype": od, "dropna": dropna}
                                c = {"type": "carver", "carver": carver, "kind": kind, "cells": [list(x) for x in cells], "nan": list(nan) if nan else None, "dev": None, "cfg": cfg, "seed": seed}
                                if scale:
                                    c["scale"] = scale
                                cases.append(c)
    # ordinal features whose values are numeric codes ranked in DESCENDING order (rank != code), float and str output
    for carver in ("binary", "continuous"):
        tabs, tr = carving_space.tables(carver, "ORD", tier, kmax=4 if tier != "quick" else 3)
        transitions += tr
        for cells in tabs[:: 1 if tier != "quick" else 2]:
            k = len(cells)
            for values in ([k - 1 - i for i in range(k)], [k - i for i in range(k)], [float(k - i) for i in range(k)], [1e6 * (k - i) for i in range(k)]):
                for od in ("float", "str"):
                    cfg = {"sort_by": "tschuprowt", "max_n_mod": 4, "min_freq": 0.05, "min_freq_mod": None, "output_dtype": od, "dropna": True}
                    cases.append({"type": "carver", "carver": carver, "kind": "ORD", "cells": [list(x) for x in cells], "nan": None, "dev": None, "cfg": cfg, "seed": seed, "values": values})
    # categorical features for which the user also provides the vocabulary in values_orders (alphabetical, unrelated to rates)
    for carver in ("binary", "continuous"):
        tabs, tr = carving_space.tables(carver, "ORD", tier, kmax=4 if tier != "quick" else 3)
        for cells in tabs[:: 1 if tier != "quick" else 2]:
            for od in ("float", "str"):
                cfg = {"sort_by": "tschuprowt", "max_n_mod": 4, "min_freq": 0.05, "min_freq_mod": None, "output_dtype": od, "dropna": True}
                cases.append({"type": "carver", "carver": carver, "kind": "CAT", "cells": [list(x) for x in cells], "nan": None, "dev": None, "cfg": cfg, "seed": seed, "vocabulary": True})
    for cells in carving_space.tables("binary", "ORD", tier, kmax=3)[0]:
        for cls in ("Discretizer", "QualitativeDiscretizer"):
            cases.append({"type": "disc", "cls": cls, "kind": "CAT", "cells": [list(c) for c in cells], "nan": None, "min_freq": 0.05, "target": "binary", "seed": seed, "companion": None, "vocabulary": True})
    # continuous targets in [0, 1): the order of categorical modalities must follow the real-valued rates
    tabs, tr = carving_space.tables("continuous", "CAT", tier, kmax=4)
    for cells in tabs:
        for od in ("float", "str"):
            cfg = {"max_n_mod": 4, "min_freq": 0.05, "min_freq_mod": None, "output_dtype": od, "dropna": True}
            cases.append({"type": "carver", "carver": "continuous", "kind": "CAT", "cells": [list(x) for x in cells], "nan": None, "dev": None, "cfg": cfg, "seed": seed, "yscale": 0.25})
    # MulticlassCarver (per-class columns f_<class>)
    for kind in ("ORD", "QNT", "CAT"):
        tabs, tr = carving_space.tables("multiclass", kind, tier, kmax=3)
        transitions += tr
        for cells in tabs[:: 1 if tier != "quick" else 2]:
            for od in ("float", "str"):
                cfg = {"sort_by": "cramerv", "max_n_mod": 3, "min_freq": 0.05, "min_freq_mod": None, "output_dtype": od, "dropna": True}
                cases.append({"type": "carver", "carver": "multiclass", "kind": kind, "cells": [list(x) for x in cells], "nan": None, "dev": None, "cfg": cfg, "seed": seed})
    transitions += len(cases)
    return cases, transitions


def run(tier, seed, rep):
    cases, transitions = enumerate_cases(tier, seed)
    rep.rule = (
        "E1: fitted objects of the discretizer column space (Discretizer / Quantitative- / QualitativeDiscretizer, kinds QNT, ORD, CAT, "
        "NUMCAT) and of the carving space (Binary/ContinuousCarver, all four (output_dtype, dropna) combinations, with/without "
        "missing-value cell), incl. the quantitative scale x+202300 whose boundaries agree to 4 significant digits, and each carver "
        "object rebuilt from its JSON; oracle RefTransform reads only values_orders and must induce the same row partition as "
        "transform(X_train), injective labels, float labels = ranks. non-trivial = >= 2 groups observed on the training rows"
    )
    rep.assumptions = ["interval label text is not prescribed, only injectivity"]
    rep.transitions = transitions
    for case, res in zip(cases, pmap(run_case, cases)):
        res["transitions"] = 0
        rep.record(case, res)
