"""Shared state space and reference measures for the selector checks C14 / C15.

Frames of N=12 rows whose columns are taken from a column alphabet defined *relative to the target*
(copy, strictly monotone image, negation, two noisy variants, two independent patterns, constant,
half-missing, qualitative analogues), for binary / 3-class / continuous targets."""
from __future__ import annotations

import contextlib
import io
import itertools
import math

import numpy as np
import pandas as pd

from ..ref import stats

N = 12
TOL = 1e-9


def isnan(v):
    return v is None or (isinstance(v, float) and math.isnan(v))


def target(kind):
    if kind == "binary":
        return [0] * 6 + [1] * 6
    if kind == "multiclass":
        return [0] * 4 + [1] * 4 + [2] * 4
    return [1.0, 2.0, 2.0, 3.0, 5.0, 6.0, 7.0, 7.0, 9.0, 10.0, 11.0, 13.0]


def swap(lst, i, j):
    l = list(lst)
    l[i], l[j] = l[j], l[i]
    return l


CLUSTER = {
    "binary": {
        "clfirst": [-0.5, -0.25, 0.5, 0.75, 0.75, -0.5, 2.75, 2.0, 1.75, 1.75, 2.0, 1.5],
        "clsecond": [-1.0, 0.0, -2.5, -2.5, 0.0, 1.5, 2.0, 0.5, 2.5, 3.0, 0.5, 3.5],
        "clshadow": [0.75, -1.5, -1.25, 2.0, 2.0, -2.25, 3.5, 2.75, 1.75, 0.5, 2.75, 1.5],
    },
    "multiclass": {
        "clfirst": [-0.25, 0.5, 0.25, 0.25, 2.0, 2.75, 1.5, 1.75, 4.25, 3.5, 3.5, 4.5],
        "clsecond": [-1.0, -1.5, 0.0, 0.0, 4.5, 0.5, 4.5, 4.5, 1.5, 4.0, 3.5, 2.5],
        "clshadow": [-1.5, 0.5, 1.0, 0.25, 0.75, 4.0, 0.25, 0.5, 3.0, 5.25, 2.75, 5.25],
    },
}


def quant_alphabet(kind):
    y = [float(v) for v in target(kind)]
    nan = float("nan")
    return {
        "copy": list(y),
        "mono": [v * v * v + 1 for v in y],
        "neg": [-v for v in y],
        "noisy1": swap(swap(y, 2, 9), 0, 5),
        "noisy2": [v + d for v, d in zip(y, [0.4, -0.3, 2.2, 0.1, -2.6, 0.3, 1.7, -0.2, -3.1, 0.2, 0.6, -0.5])],
        "indep1": [1.0, 2.0] * 6,
        "indep2": [1.0, 2.0, 3.0, 3.0, 2.0, 1.0] * 2,
        "const": [1.0] * N,
        "halfnan": [nan if i % 2 else v for i, v in enumerate(swap(y, 0, 10))],
        # few observed rows, on which the column separates the target perfectly: strong R, weak Kruskal H
        "strongnan": [(v * 10.0 if i in (0, 3, 5, 6, 8, 11) else nan) for i, v in enumerate(y)],
        "strongnan2": [(v * 7.0 + 1 if i in (1, 2, 6, 7, 10, 11) else nan) for i, v in enumerate(y)],
        # q1 = 1, q3 = 3: the largest value sits exactly on the upper Tukey fence q3 + 1.5 * iqr = 6 (and -6 on the lower
        # fence once the column is negated)
        "fence": [1.0, 1.0, 1.0, 2.0, 1.0, 2.0, 2.0, 3.0, 3.0, 3.0, 3.0, 6.0],
        "fence2": [3.0, 3.0, 2.0, 3.0, 3.0, 2.0, 2.0, 1.0, 1.0, 1.0, 1.0, -2.0],
        # one value far away: |z| = 3.16 > 3 with 12 rows (the z-score outlier measure bites), associated with the target
        "spike": [1.0, 1.0, 1.0, 1.0, 1.0, 1.0, 2.0, 2.0, 2.0, 2.0, 2.0, 50.0],
        # a correlated cluster with a third feature ranked in between (found once by search, classification targets):
        # H(first) > H(second) > H(shadow), |r|(first, shadow) ~ 0.8, |r|(first, second) ~ 0.5, |r|(second, shadow) < 0.3
        **CLUSTER.get(kind, {}),
    }


def qual_alphabet(kind):
    y = target(kind)
    if kind == "continuous":
        cls = [0 if v <= 3 else (1 if v <= 7 else 2) for v in y]
    else:
        cls = list(y)
    names = ["a", "b", "c"]
    other = ["z", "y", "x"]
    k = len(set(cls))

    def err(rows):  # the class indicator with the listed rows moved to the next class
        return [names[(c + 1) % k] if i in rows else names[c] for i, c in enumerate(cls)]

    return {
        # cluster: qe0 > qe56 > qe012 by association with the target; qe012 is a noisy copy of qe0, qe56 is nearly
        # unrelated to both
        "qe0": err({0}),
        "qe56": err({5, 6}),
        "qe012": err({0, 1, 2}),
        "qcopy": [names[c] for c in cls],
        "qrename": [other[c] for c in cls],
        "qcoarse": [names[min(c, 1)] for c in cls] if kind != "binary" else [names[c] for c in swap(cls, 5, 6)],
        "qnoisy": [names[c] for c in swap(swap(cls, 1, 10), 3, 7)],
        "qindep": ["u", "v"] * 6,
        "qindep3": ["u", "v", "w"] * 4,
        "qconst": ["k"] * N,
        "qnan": [None if i % 3 == 0 else names[c] for i, c in enumerate(cls)],
    }


# ---------------------------------------------------------------------------------------------------
# reference measures (plain lists)
# ---------------------------------------------------------------------------------------------------
def usable(col, thresh=0.999):
    nn = [v for v in col if not isnan(v)]
    if len(nn) == 0 or (len(col) - len(nn)) / len(col) >= thresh:
        return False
    counts = {}
    for v in nn:
        counts[v] = counts.get(v, 0) + 1
    mode_count = max(counts.values())
    return mode_count / len(col) < thresh


def kruskal_by_target(x, y):
    """Kruskal H of x grouped by the classes of y (classification, quantitative feature)"""
    classes = list(dict.fromkeys(y))
    groups = [[xv for xv, yv in zip(x, y) if yv == c and not isnan(xv)] for c in classes]
    return stats.kruskal(groups)


def kruskal_by_feature(x, y):
    """Kruskal H of y grouped by the categories of x (regression, qualitative feature)"""
    cats = list(dict.fromkeys(v for v in x if not isnan(v)))
    groups = [[yv for xv, yv in zip(x, y) if xv == c] for c in cats]
    return stats.kruskal(groups)


def eta_by_target(x, y):
    classes = list(dict.fromkeys(y))
    groups = [[xv for xv, yv in zip(x, y) if yv == c and not isnan(xv)] for c in classes]
    return stats.correlation_ratio(groups)


def crosstab(a, b):
    rows = sorted({v for v in a if not isnan(v)}, key=str)
    cols = sorted({v for v in b if not isnan(v)}, key=str)
    t = [[0] * len(cols) for _ in rows]
    for u, v in zip(a, b):
        if isnan(u) or isnan(v):
            continue
        t[rows.index(u)][cols.index(v)] += 1
    # crosstab drops empty rows / columns
    t = [r for r in t if sum(r) > 0]
    keep = [j for j in range(len(cols)) if any(r[j] for r in t)]
    return [[r[j] for j in keep] for r in t]


def tschuprowt(a, b):
    """AutoCarver's definition: sqrt(chi2 / n_obs / sqrt((r-1)(c-1))) with r, c the numbers of distinct values;
    returns the value under both chi2 conventions"""
    t = crosstab(a, b)
    n_obs = sum(1 for u, v in zip(a, b) if not isnan(u) and not isnan(v))
    r = len({v for v in a if not isnan(v)})
    c = len({v for v in b if not isnan(v)})
    d = math.sqrt((r - 1) * (c - 1))
    out = []
    for yates in (True, False):
        chi = stats.chi2(t, yates) if len(t) > 1 and len(t[0]) > 1 else 0.0
        if chi is None:
            out.append(None)
        else:
            out.append(math.sqrt(chi / n_obs / d) if d > 0 else 0.0)
    return out


def cramerv(a, b):
    t = crosstab(a, b)
    n_obs = sum(1 for u, v in zip(a, b) if not isnan(u) and not isnan(v))
    r = len({v for v in a if not isnan(v)})
    c = len({v for v in b if not isnan(v)})
    k = min(r, c) - 1
    out = []
    for yates in (True, False):
        chi = stats.chi2(t, yates) if len(t) > 1 and len(t[0]) > 1 else 0.0
        out.append(math.sqrt(chi / n_obs / k) if (chi is not None and k > 0) else None)
    return out


def pair_complete(a, b):
    xs, ys = [], []
    for u, v in zip(a, b):
        if not isnan(u) and not isnan(v):
            xs.append(u)
            ys.append(v)
    return xs, ys


def corr(a, b, how):
    xs, ys = pair_complete(a, b)
    r = stats.spearman(xs, ys) if how == "spearman" else stats.pearson(xs, ys)
    return None if r is None else abs(r)


def quiet(fn, *a, **k):
    with contextlib.redirect_stdout(io.StringIO()):
        return fn(*a, **k)
