"""The shared E1 state space of single-feature carving problems (used by C01, C02, C03, C04, C16 ...).

state  = (carver, kind, cells, nan cell, dev sample, configuration), canonical tuple form
search = BFS over append_cell construction steps (space.construct) x deviation-bounded grid over the
         configuration axes, the missing-value axis and the dev-sample axis.
"""
from __future__ import annotations

from .. import space

CFG_AXES = {
    "binary": {
        "sort_by": ["tschuprowt", "cramerv"],
        "max_n_mod": [3, 2, 4, 6],
        "min_freq": [0.1, 0.25],
        "min_freq_mod": [None, 0.125, 0.25, 0],
        "output_dtype": ["float", "str"],
        "verbose": [False, True],
        "index": ["range", "offset"],
    },
    "continuous": {
        "max_n_mod": [3, 2, 4, 6],
        "min_freq": [0.1, 0.25],
        "min_freq_mod": [None, 0.125, 0.25, 0],
        "output_dtype": ["float", "str"],
        "verbose": [False, True],
        "index": ["range", "offset"],
    },
}
CFG_AXES["multiclass"] = CFG_AXES["binary"]


def alphabet(carver, tier):
    return {"binary": space.SIGMA_B, "continuous": space.SIGMA_C, "multiclass": space.SIGMA_M}[carver][tier]


def valid_target(carver, cells, nan=None):
    allc = list(cells) + ([nan] if nan is not None else [])
    if carver == "binary":
        return sum(c[0] for c in allc) > 0 and sum(c[1] for c in allc) > 0
    if carver == "multiclass":
        return all(sum(c[i] for c in allc) > 0 for i in range(3))
    return len({v for c in allc for v in c}) > 2


def tables(carver, kind, tier, kmax=None, alpha=None):
    """(states, transitions) of the construction search for one carver/kind"""
    alpha = alpha or alphabet(carver, tier)
    kmax = kmax or 4
    ordered = kind != "CAT"
    return space.construct(alpha, 2, kmax, ordered=ordered, keep=lambda st: valid_target(carver, st))


def dev_variants(carver, cells, alpha, level):
    """dev samples = the train cells with <= 1 cell replaced from the alphabet or removed (level 2), or a small
    fixed menu (level 1).  Always aligned with the train cells (a removed cell is the empty cell)."""
    k = len(cells)
    zero = () if carver == "continuous" else tuple([0] * len(cells[0]))
    out = [("same", list(cells))]
    if level == 0:
        d = list(cells)
        d[0], d[1] = d[1], d[0]
        if d != list(cells):
            out.append(("swap01", d))
    elif level >= 2:
        for i in range(k):
            for c in alpha:
                if tuple(c) != tuple(cells[i]):
                    d = list(cells)
                    d[i] = tuple(c)
                    out.append((f"replace{i}", d))
            d = list(cells)
            d[i] = zero
            out.append((f"remove{i}", d))
    else:
        d = list(cells)
        d[0], d[1] = d[1], d[0]
        if d != list(cells):
            out.append(("swap01", d))
        d = list(cells)
        d[-1] = zero
        out.append(("removelast", d))
        d = list(cells)
        d[0] = tuple(alpha[0])
        if d != list(cells):
            out.append(("replace0", d))
    return out


def binary_like(carver):
    return carver in ("binary", "multiclass")


def cases_for_table(carver, kind, cells, tier, seed, d_cfg, dev_level, nan_cells, lean=False):
    """all (nan, dev, cfg) deviations for one table"""
    axes = CFG_AXES[carver]
    cfgs = space.grid(axes, d_cfg)
    default = dict(cfgs[0])
    out = []

    def mk(nan, dev, cfg, dropna=True):
        c = dict(cfg)
        c["dropna"] = dropna
        return {
            "carver": carver,
            "kind": kind,
            "cells": [list(x) for x in cells],
            "nan": list(nan) if nan is not None else None,
            "dev": dev,
            "cfg": c,
            "seed": seed,
        }

    for cfg in cfgs:
        out.append(mk(None, None, cfg))
    # thresholds forced to collide with this table: min_freq_mod just above a cell's frequency (the next multiple of
    # 0.01), so that a group sits within half a percent under the threshold
    if not lean:
        import math

        sizes = [(sum(c) if carver != "continuous" else len(c)) for c in cells]
        n_rows = sum(sizes)
        near = sorted({math.ceil(100 * sz / n_rows) / 100 for sz in sizes if (100 * sz) % n_rows and sz / n_rows < 0.5})
        for mfm in near[:2]:
            c = dict(default)
            c["min_freq_mod"] = mfm
            c["min_freq"] = 0.05
            out.append(mk(None, None, c))
    alpha = alphabet(carver, tier)
    for nc in nan_cells:
        for dropna in (True, False):
            out.append(mk(nc, None, default, dropna))
        if kind == "QNT":  # a cut point exactly at 0.0 (first or second boundary) next to missing values
            for shift in (-1.0, -2.0):
                for mn in (3, 2) if not lean else (3,):
                    c = dict(default)
                    c["max_n_mod"] = mn
                    zc = mk(nc, None, c, True)
                    zc["scale"] = [1.0, shift]
                    out.append(zc)
        if lean:
            continue
        # stage 2 interacts with max_n_mod and min_freq_mod
        for mn in (2, 4):
            c = dict(default)
            c["max_n_mod"] = mn
            out.append(mk(nc, None, c, True))
        c = dict(default)
        c["min_freq_mod"] = 0.25
        out.append(mk(nc, None, c, True))
        c = dict(default)
        c["min_freq_mod"] = 0
        out.append(mk(nc, None, c, True))
    # verbose fits must carve exactly like silent ones, also when base modalities are groups of raw values
    if not lean and kind != "QNT":
        c = dict(default)
        c["verbose"] = True
        c["min_freq"] = 0.25
        out.append(mk(None, None, c))
    # a single missing row with an explicit zero threshold: the tiny missing group may stand alone
    if not lean:
        tiny = (3,) if carver == "continuous" else ((0, 1) if carver == "binary" else (0, 0, 1))
        c = dict(default)
        c["min_freq_mod"] = 0
        c["max_n_mod"] = 4
        out.append(mk(tiny, None, c, True))
    # a single missing row that is too rare to stand alone, next to a cut point exactly at 0.0
    if not lean and kind == "QNT":
        tiny = [(3,)] if carver == "continuous" else ([(0, 1), (1, 0)] if carver == "binary" else [(0, 0, 1)])
        for t in tiny:
            for shift in (-1.0, -2.0):
                c = dict(default)
                c["min_freq_mod"] = 0.125
                zc = mk(t, None, c, True)
                zc["scale"] = [1.0, shift]
                out.append(zc)
    for name, dcells in dev_variants(carver, list(cells), alpha, dev_level):
        if not any(sum(c) if binary_like(carver) else len(c) for c in dcells):
            continue
        dev = {"cells": [list(x) for x in dcells], "nan": None, "name": name}
        if not valid_target(carver, dcells):
            continue
        out.append(mk(None, dev, default))
        if name == "same" and not lean:
            c = dict(default)
            c["index"] = "offset"
            out.append(mk(None, dev, c))
    # dev + missing values together (same dev, with / without missing values on dev)
    if nan_cells and not lean:
        nc = nan_cells[0]
        for dn in (nc, None):
            dev = {"cells": [list(x) for x in cells], "nan": list(dn) if dn is not None else None, "name": "same+nan" if dn else "same-nonan"}
            out.append(mk(nc, dev, default))
        # the share of missing rows differs between train and dev and a group sits near min_freq_mod:
        # frequencies of the first search are over the non-missing rows of each sample
        big = tuple(4 * v for v in nc) if carver != "continuous" else tuple(nc) * 4
        for dn in (big,):
            for mfm in (0.25, 0.125):
                for dropna in (True, False):
                    c = dict(default)
                    c["min_freq_mod"] = mfm
                    dev = {"cells": [list(x) for x in cells], "nan": list(dn), "name": "same+bignan"}
                    out.append(mk(nc, dev, c, dropna))
    return out


def enumerate_cases(carver, tier, seed, kinds=("ORD", "QNT", "CAT")):
    """returns (cases, transitions)"""
    cases = []
    transitions = 0
    alpha = alphabet(carver, tier)
    nan_cells_quick = [alpha[1], alpha[2]]
    for kind in kinds:
        if tier == "quick":
            tabs, tr = tables(carver, kind, tier, kmax=4)
            transitions += tr
            for cells in tabs:
                k = len(cells)
                if k <= 3:
                    cs = cases_for_table(carver, kind, cells, tier, seed, d_cfg=1, dev_level=2 if k <= 2 else 1, nan_cells=nan_cells_quick[:1])
                else:
                    cs = cases_for_table(carver, kind, cells, tier, seed, d_cfg=0, dev_level=0, nan_cells=nan_cells_quick[1:], lean=True)
                cases += cs
        else:
            # full alphabet up to k=3 with the deviation bound 2; k=4 over the quick alphabet with the bound 1
            tabs, tr = tables(carver, kind, tier, kmax=3)
            tabs4, tr4 = tables(carver, kind, "quick", kmax=4, alpha=space_alpha(carver, "quick"))
            tabs, tr = tabs + [t for t in tabs4 if len(t) == 4], tr + tr4
            transitions += tr
            for cells in tabs:
                k = len(cells)
                cs = cases_for_table(carver, kind, cells, tier, seed, d_cfg=2 if k <= 2 else 1, dev_level=2 if k <= 3 else 1, nan_cells=list(alpha[:3]) if k <= 3 else list(alpha[1:2]))
                cases += cs
            # deeper tables over the quick alphabet, default configuration only
            tabs5, tr5 = tables(carver, kind, "quick", kmax=5, alpha=space_alpha(carver, "quick"))
            transitions += tr5
            for cells in tabs5:
                if len(cells) == 5:
                    cases += cases_for_table(carver, kind, cells, tier, seed, d_cfg=0, dev_level=1, nan_cells=[])
    transitions += len(cases)  # one set_param / set_nan / perturb_dev step per derived case
    return cases, transitions


def space_alpha(carver, tier):
    return alphabet(carver, tier)
