"""C09 — base discretization honours min_freq and keeps its granularity (E1, column space of C08)."""
from __future__ import annotations

import math
from fractions import Fraction as F

from .. import space
from ..common import pmap
from ..ref.carver import freq_ok
from . import disc_space

PROP = "C09"


def thr(x):
    return F(repr(float(x)))


def ge3(count, total, threshold):
    """count/total >= threshold, three-valued (see ref.carver.freq_ok)"""
    return freq_ok(count, total, threshold)


def check_nan_separate(order, has_nan, viol):
    nan_groups = [k for k, m in order.content.items() if any(space.is_nan_leader(x) for x in m)]
    if has_nan:
        if len(nan_groups) != 1 or not space.is_nan_leader(nan_groups[0]) or len(order.content[nan_groups[0]]) != 1:
            viol.append({"kind": "nan-not-separate", "what": f"missing values are not a separate modality: {dict(order.content)!r}"})
    elif nan_groups:
        viol.append({"kind": "spurious-nan", "what": f"missing-value modality although no value is missing: {list(order)!r}"})


def run_case(case):
    fit = disc_space.fit(case)
    res = {"violations": [], "sample": dict(case), "dont_care": 0}
    if fit["status"] != "ok":
        res["outcome"] = f"{case['cls']}:{fit['status']}"
        return res
    obj = fit["obj"]
    if "f" not in obj.features:
        res["outcome"] = f"{case['cls']}:dropped"
        return res
    order = obj.values_orders["f"]
    cells = [tuple(c) for c in case["cells"]]
    nan = tuple(case["nan"]) if case.get("nan") else None
    vals = fit["vals"]
    sizes = [c[0] + c[1] for c in cells]
    n_nan = (nan[0] + nan[1]) if nan else 0
    N = sum(sizes) + n_nan
    mf = case["min_freq"]
    viol = res["violations"]
    kind, cls = case["kind"], case["cls"]
    tags = []
    leaders = [l for l in order if not space.is_nan_leader(l)]
    if cls == "ContinuousDiscretizer":
        fin = leaders[:-1]
        if not leaders or leaders[-1] != math.inf:
            viol.append({"kind": "no-inf", "what": f"boundaries {leaders!r} do not end with +inf"})
        if any(not (a < b) for a, b in zip(leaders, leaders[1:])):
            viol.append({"kind": "not-increasing", "what": f"boundaries {leaders!r} are not strictly increasing"})
        observed = {v for v, s in zip(vals, sizes) if s > 0}
        for b in fin:
            if b not in observed:
                viol.append({"kind": "not-observed", "what": f"boundary {b!r} is not an observed training value"})
        q = round(1 / mf)
        frequent = []
        for v, s in zip(vals, sizes):
            if s == 0:
                continue
            g = ge3(s, N, mf)
            if g is None:
                res["dont_care"] += 1
            if g:
                frequent.append(v)
                if v not in fin:
                    # explanation F14: the code thresholds on 1/round(1/min_freq), not on min_freq
                    explained = (s < N / q) and (F(s, N) >= thr(mf))
                    viol.append(
                        {
                            "kind": "frequent-not-boundary",
                            "what": f"value {v!r} has frequency {s}/{N} >= min_freq={mf} but is not a boundary {leaders!r}",
                            "finding": "F14" if explained else None,
                        }
                    )
        # buckets free of frequent values hold <= 2.5 * min_freq of the rows
        lo = -math.inf
        for b in leaders:
            members = [(v, s) for v, s in zip(vals, sizes) if lo < v <= b and s > 0]
            cnt = sum(s for _, s in members)
            if members and not any(v in frequent for v, _ in members):
                if F(cnt, N) > F(5, 2) * thr(mf):
                    viol.append({"kind": "bucket-too-big", "what": f"bucket ({lo}, {b}] holds {cnt}/{N} rows > 2.5*min_freq={2.5*mf} without any frequent value"})
                tags.append("quantile-bucket")
            lo = b
        if frequent:
            tags.append("frequent-values")
        check_nan_separate(order, n_nan > 0, viol)
    elif kind == "QNT":
        lo = -math.inf
        counts = []
        for b in leaders:
            counts.append(sum(s for v, s in zip(vals, sizes) if lo < v <= b))
            lo = b
        if len(counts) > 1:
            for b, c in zip(leaders, counts):
                g = ge3(c, N, mf / 2)
                if g is None:
                    res["dont_care"] += 1
                elif g is False:
                    viol.append({"kind": "quantitative-bucket-rare", "what": f"bucket <= {b} holds {c}/{N} rows < min_freq/2={mf/2} (buckets {leaders!r}, counts {counts})"})
                if F(c, N) == thr(mf / 2):
                    tags.append("at-threshold")
        else:
            tags.append("single-bucket")
        if sum(counts) != sum(sizes):
            viol.append({"kind": "rows-lost", "what": f"buckets {leaders!r} cover {sum(counts)} of {sum(sizes)} non-missing rows"})
        check_nan_separate(order, n_nan > 0, viol)
    elif kind == "ORD":
        counts = []
        for l in leaders:
            mem = order.content[l]
            counts.append(sum(s for v, s in zip(vals, sizes) if any(v == m for m in mem)))
        if len(counts) > 1:
            for l, c in zip(leaders, counts):
                g = ge3(c, N, mf)
                if g is None:
                    res["dont_care"] += 1
                elif g is False:
                    viol.append({"kind": "ordinal-bucket-rare", "what": f"ordinal bucket {l!r} holds {c}/{N} rows < min_freq={mf} (buckets {[order.content[x] for x in leaders]!r})"})
                if F(c, N) == thr(mf):
                    tags.append("at-threshold")
        else:
            tags.append("single-bucket")
        if any(s == 0 for s in sizes):
            tags.append("never-observed-value")
        check_nan_separate(order, n_nan > 0, viol)
    else:  # CAT / NUMCAT
        for v, s in zip(vals, sizes):
            grp = order.get_group(v)
            if not order.contains(v):
                grp = order.get_group(space.str_form(v))
            in_default = grp == space.STR_DEFAULT
            g = ge3(s, N, mf)
            if g is None:
                res["dont_care"] += 1
                continue
            if in_default != (not g):
                viol.append({"kind": "default-group", "what": f"value {v!r} has frequency {s}/{N}, min_freq={mf}, but default-group membership is {in_default}"})
            if in_default:
                tags.append("default-group")
        check_nan_separate(order, n_nan > 0, viol)
    res["outcome"] = f"{cls}:{kind}:" + ("+".join(sorted(set(tags))) or "plain")
    if tags:
        res["nontrivial"] = repr(sorted(case.items(), key=str))
    res["sample"]["values_orders"] = {repr(k): [repr(x) for x in v] for k, v in order.content.items()}
    return res


def replay(case):
    return run_case(case)


def run(tier, seed, rep):
    cases, transitions = disc_space.enumerate_cases(tier, seed, "discretizers")
    cases = [c for c in cases if c["companion"] is None]
    rep.rule = (
        "E1 column space of C08 restricted to the Discretizer family; oracle (exact rationals): ordinal buckets >= min_freq, "
        "quantitative buckets >= min_freq/2 unless a single bucket remains, categorical value in the default group iff rarer than "
        "min_freq, missing values a separate modality, ContinuousDiscretizer boundaries strictly increasing observed values + inf, "
        "every value with frequency >= min_freq is a boundary, quantile buckets <= 2.5*min_freq. non-trivial = bucket at a "
        "threshold, single bucket, default group, never-observed ordinal value, frequent values or quantile buckets present"
    )
    rep.assumptions = ["frequencies are over all rows (missing included)", "a frequency exactly on a non-dyadic threshold is DONT_CARE"]
    rep.transitions = transitions
    for case, res in zip(cases, pmap(run_case, cases)):
        res["transitions"] = 0
        rep.record(case, res)
