"""C03 — grouping preserves each feature's order (contiguity, monotone transform) (E1 + probe sets)."""
from __future__ import annotations

import math
from fractions import Fraction as F

import numpy as np
import pandas as pd

from .. import space
from ..common import pmap
from . import c04

PROP = "C03"


def isnan(v):
    return isinstance(v, float) and math.isnan(v)


def probes(bounds, train):
    fin = sorted({float(b) for b in bounds if not isinstance(b, str) and math.isfinite(b)})
    P = set(train)
    for b in fin:
        P.update([b, float(np.nextafter(b, -np.inf)), float(np.nextafter(b, np.inf))])
    for a, b in zip(fin, fin[1:]):
        P.add((a + b) / 2)
    base = sorted(P) or [0.0]
    P.update([-1e300, 1e300, base[0] - 1, base[-1] + 1, 0.0])
    return sorted(P)


def runs_ok(labels):
    """each label occupies one contiguous run"""
    seen, last = set(), object()
    for l in labels:
        if l != last:
            if l in seen:
                return False
            seen.add(l)
            last = l
    return True


def check_feature(obj, f, X, y, kind, vals, viol, raw_vals=None, extra_ok=()):
    raw = next((r for r, lst in obj.features_casting.items() if f in lst), f)  # multiclass: f_<class> is fed by the raw column
    order = obj.values_orders[f]
    leaders = [l for l in order if not space.is_nan_leader(l)]
    is_float = obj.output_dtype == "float"
    info = 0
    if f in obj.quantitative_features:
        # static contiguity
        prev_max = -math.inf
        for l in leaders:
            mem = [m for m in order.content[l] if not space.is_nan_leader(m)]
            if not mem:
                viol.append({"kind": "empty-group", "what": f"{f}: group {l!r} has no boundary"})
                continue
            if max(mem) != l:
                viol.append({"kind": "leader-not-max", "what": f"{f}: leader {l!r} is not the largest boundary of its group {mem!r}"})
            if min(mem) <= prev_max:
                viol.append({"kind": "quant-not-contiguous", "what": f"{f}: group {mem!r} overlaps the previous group (max {prev_max})"})
            prev_max = max(mem)
        if leaders and leaders[-1] != math.inf:
            viol.append({"kind": "last-not-unbounded", "what": f"{f}: last boundary is {leaders[-1]!r}, not +inf"})
        # probe transform
        train = [v for v in X[raw].tolist() if not isnan(v)]
        allb = [m for l in leaders for m in order.content[l] if not space.is_nan_leader(m)]
        P = probes(allb, train)
        frame = pd.DataFrame({c: (pd.Series(P, dtype=float) if c == raw else pd.Series([X[c].iloc[0]] * len(P), dtype=X[c].dtype)) for c in X.columns})
        frame.index = [10 * (len(P) - i) for i in range(len(P))]  # any unique index: labels follow the rows, not the index labels
        try:
            out = obj.transform(frame)[f].tolist()
        except Exception as exc:  # noqa
            viol.append({"kind": "probe-transform-raises", "what": f"{f}: transform on probe values raised {type(exc).__name__}: {str(exc)[:100]}"})
            return 0
        if any(isnan(o) or o is None for o in out):
            viol.append({"kind": "probe-missing", "what": f"{f}: a finite probe value is mapped to a missing output"})
            return 0
        info = len(set(out))
        if not runs_ok(out):
            viol.append({"kind": "not-interval", "what": f"{f}: the preimage of a label is not an interval of the real line (labels along sorted probes {compress(out)})"})
        if len(set(out)) != len(leaders):
            viol.append({"kind": "n-values", "what": f"{f}: transform takes {len(set(out))} values over the real line but there are {len(leaders)} groups"})
        if is_float:
            if any(a > b for a, b in zip(out, out[1:])):
                viol.append({"kind": "not-monotone", "what": f"{f}: transform is not non-decreasing along sorted probes: {compress(out)}"})
        # right-closed intervals: b with prev(b), next(b) in the next interval
        lab = dict(zip(P, out))
        for l in leaders:
            if not math.isfinite(l):
                continue
            lo, hi = float(np.nextafter(l, -np.inf)), float(np.nextafter(l, np.inf))
            if lab[l] != lab[lo]:
                viol.append({"kind": "not-right-closed", "what": f"{f}: boundary {l!r} and its predecessor double get different labels"})
            if lab[hi] == lab[l]:
                viol.append({"kind": "not-right-closed", "what": f"{f}: boundary {l!r} and its successor double get the same label"})
        return info
    # qualitative
    if kind == "ORD":
        rank = {v: i for i, v in enumerate(vals)}
        prev_hi = -1
        for l in leaders:
            foreign = [m for m in order.content[l] if isinstance(m, str) and m not in rank and m not in extra_ok and not space.is_nan_leader(m)]
            if foreign:
                viol.append({"kind": "ordinal-foreign-value", "what": f"{f}: group {order.content[l]!r} holds {foreign!r}, which are not values of the user ranking {vals!r}"})
            mem = [m for m in order.content[l] if m in rank]
            if not mem:
                continue
            rs = sorted(rank[m] for m in mem)
            if rs != list(range(rs[0], rs[-1] + 1)):
                viol.append({"kind": "ordinal-not-contiguous", "what": f"{f}: group {mem!r} is not a run of consecutive values of the ranking {vals!r}"})
            if rs[0] <= prev_hi:
                viol.append({"kind": "ordinal-order", "what": f"{f}: groups are not in ranking order ({list(order)!r})"})
            prev_hi = rs[-1]
        known = [rv for v, rv in zip(vals, raw_vals or vals) if order.contains(v)]  # probes are the raw (possibly numeric) values
        frame = pd.DataFrame({c: (pd.Series(known, dtype=object) if c == raw else pd.Series([X[c].iloc[0]] * len(known), dtype=X[c].dtype)) for c in X.columns})
        try:
            out = obj.transform(frame)[f].tolist()
        except Exception as exc:  # noqa
            viol.append({"kind": "probe-transform-raises", "what": f"{f}: transform on the ranking raised {type(exc).__name__}: {str(exc)[:100]}"})
            return 0
        info = len(set(out))
        if not runs_ok(out):
            viol.append({"kind": "ordinal-not-interval", "what": f"{f}: labels along the ranking are not contiguous runs: {out!r}"})
        if is_float and any(a > b for a, b in zip(out, out[1:])):
            viol.append({"kind": "ordinal-not-monotone", "what": f"{f}: label is not non-decreasing in rank: {out!r}"})
        return info
    # categorical: base order is non-decreasing in training target rate
    col = X[raw].tolist()
    yv = y.tolist()
    if raw != f:  # multiclass: the column f_<class> is carved against the indicator of that class
        cls_name = f[len(raw) + 1 :]
        yv = [1 if str(v) == cls_name else 0 for v in yv]
    rates = []
    for l in leaders:
        mem = order.content[l]
        rows = [yy for xv, yy in zip(col, yv) if not isnan(xv) and (any(xv == m for m in mem) or any(space.str_form(xv) == m for m in mem if isinstance(m, str)))]
        if rows:
            rates.append(sum(F(r).limit_denominator(10**9) for r in rows) / len(rows))
    if any(a > b for a, b in zip(rates, rates[1:])):
        viol.append({"kind": "categorical-order", "what": f"{f}: modalities are not in non-decreasing training target-rate order: {[str(r) for r in rates]}"})
    return len(rates)


def compress(seq):
    out = []
    for s in seq:
        if not out or out[-1][0] != s:
            out.append([s, 1])
        else:
            out[-1][1] += 1
    return [(repr(a), n) for a, n in out][:12]


def run_case(case):
    fit, obj = c04.fitted_object(case)
    res = {"violations": [], "sample": dict(case)}
    if obj is None:
        res["outcome"] = "fit-" + fit["status"]
        return res
    if not obj.features:
        res["outcome"] = "dropped"
        return res
    info = 0
    vals = fit["vals"]
    if case["kind"] == "ORD":
        vals = [v if isinstance(v, str) else space.str_form(v) for v in vals]
    for f in list(obj.features):
        raw = next((r for r, lst in obj.features_casting.items() if f in lst), f)
        if raw != "f":  # companion features are plain categorical / quantitative columns
            info += check_feature(obj, f, fit["X"], fit["y"], "CAT", [], res["violations"])
            continue
        info += check_feature(obj, f, fit["X"], fit["y"], case["kind"], vals, res["violations"], raw_vals=list(fit["vals"]))
    tag = ""
    if not res["violations"] and case.get("carver") != "multiclass" and "f" in obj.features:
        # the same oracle (a) after the observers were called, (b) after the leader of a group was renamed by hand
        import contextlib
        import io
        import warnings

        from . import c17

        def again(label, extra_ok=()):
            sub = []
            for f in list(obj.features):
                if f == "f":
                    check_feature(obj, f, fit["X"], fit["y"], case["kind"], vals, sub, raw_vals=list(fit["vals"]), extra_ok=extra_ok)
            for v in sub:
                res["violations"].append({"kind": label + ":" + v["kind"], "what": f"{label}: {v['what']}"})

        try:
            with contextlib.redirect_stdout(io.StringIO()), warnings.catch_warnings():
                warnings.simplefilter("ignore")
                obj.summary()
                obj.to_json()
                if hasattr(obj, "history"):
                    obj.history()
            observed = True
        except Exception:  # noqa  (the observers themselves are judged by C16 / C06)
            observed = False
        if observed:
            again("after summary()/to_json()/history()")
            tag += "+observed"
        if not res["violations"] and not case.get("kw"):
            quant = "f" in obj.quantitative_features
            evs = [e for e in c17.enabled(obj, fit["X"], case["kind"]) if e[0] == "replace" and (not quant or e[2] > e[1])]
            if evs:
                try:
                    c17.apply_edit(obj, evs[0])
                    edited = True
                except Exception:  # noqa  (the edit itself is C17's business)
                    edited = False
                if edited:
                    again(f"after update_discretizer{tuple(evs[0])}", extra_ok=(evs[0][2],))
                    tag += "+renamed"
    # carvers on categorical features: groups are runs of the rate-sorted base modalities (also judged in C01)
    res["outcome"] = tag.lstrip("+") + ("|" if tag else "") + f"{case['type']}:{case['kind']}:{obj.output_dtype}:{'nan' if case.get('nan') else '-'}"
    if info >= 2:
        res["nontrivial"] = repr(sorted(case.items(), key=str))
    res["sample"]["order"] = {f: [repr(x) for x in obj.values_orders[f]] for f in obj.features}
    return res


def replay(case):
    return run_case(case)


def run(tier, seed, rep):
    cases, transitions = c04.enumerate_cases(tier, seed)
    for c in cases:
        c["json"] = False
    rep.rule = (
        "E1: fitted objects of the C04 enumeration (Discretizer family on the column space, Binary/ContinuousCarver on the carving space, "
        "big-scale quantitative family); static contiguity of values_orders (quantitative runs of boundaries with the leader the largest, "
        "ordinal runs of the user ranking, categorical order non-decreasing in exact training target rate) + probe frames: every "
        "boundary, its two neighbouring doubles, midpoints, training values, +-1e300, min-1, max+1 (complete for a function that "
        "depends on x only through comparisons x <= b): each label is one interval, #values = #groups, non-decreasing for float, "
        "right-closed intervals, last interval unbounded; ordinal: label non-decreasing in rank. non-trivial = >= 2 labels observed"
    )
    rep.assumptions = ["the probe set is complete only if transform compares x with the fitted boundaries and nothing else"]
    rep.transitions = transitions
    for case, res in zip(cases, pmap(run_case, cases)):
        res["transitions"] = 0
        rep.record(case, res)
