"""C19 — malformed inputs are refused up-front with AssertionError, fitted object left intact.
E2 fault enumeration: fault classes x injection positions x classes x histories (fresh / already fitted)."""
from __future__ import annotations

import json
import math

import numpy as np
import pandas as pd

from .. import space
from ..common import pmap
from ..ref.grouped_list import norm

PROP = "C19"
CLASSES = ["BinaryCarver", "ContinuousCarver", "MulticlassCarver", "Discretizer", "QualitativeDiscretizer", "QuantitativeDiscretizer"]


def base_frame(variant=0, n_rep=4):
    q = [1.0] * n_rep + [2.0] * n_rep + [3.0] * n_rep
    c = ["a"] * n_rep + ["b"] * n_rep + ["c"] * n_rep
    o = ["lo"] * n_rep + ["mid"] * n_rep + ["hi"] * n_rep
    if variant == 1:
        q = [v * 0.5 - 7 for v in q]
        c = [{"a": "z", "b": "y", "c": "x"}[v] for v in c]
    X = pd.DataFrame({"q": pd.Series(q, dtype=float), "c": pd.Series(c, dtype=object), "o": pd.Series(o, dtype=object), "other": list(range(3 * n_rep)), "txt": [f"id{i}" for i in range(3 * n_rep)]})
    if variant == 2:
        X.index = [f"r{i}" for i in range(len(X))]
    if variant == 3:  # rare categories (default group) and missing values: a re-fit would regroup them
        X["c"] = pd.Series(["a"] * 5 + ["b"] * 5 + ["r1", "r2"], dtype=object)
        X["q"] = pd.Series([1.0, 1, 1, 1, 2, 2, 2, 2, 3, 3, np.nan, np.nan], dtype=float)
    pat = [0, 0, 0, 1, 0, 0, 1, 1, 0, 1, 1, 1] if n_rep == 4 else None
    return X, pat


def target(cls, X, pat):
    if cls == "ContinuousCarver":
        y = [p + (i % 3) * 0.5 + i // 4 for i, p in enumerate(pat)]
    elif cls == "MulticlassCarver":
        y = ["x", "x", "x", "y", "x", "y", "y", "z", "y", "z", "z", "z"]
    else:
        y = list(pat)
    return pd.Series(y, index=X.index)


NO_ORDINAL = {"on": False}


def make_only_id(cls):
    """a single id-like qualitative feature: every value is rarer than min_freq, the fit drops it (successfully)"""
    from AutoCarver import BinaryCarver, ContinuousCarver
    from AutoCarver.discretizers import Discretizer, QualitativeDiscretizer

    if cls == "BinaryCarver":
        return BinaryCarver(sort_by="cramerv", min_freq=0.2, qualitative_features=["txt"], copy=True)
    if cls == "ContinuousCarver":
        return ContinuousCarver(min_freq=0.2, qualitative_features=["txt"], copy=True)
    if cls == "Discretizer":
        return Discretizer([], ["txt"], 0.2, copy=True)
    return QualitativeDiscretizer(["txt"], 0.2, copy=True)


def make(cls, **over):
    if NO_ORDINAL["on"] == "only_id":
        return make_only_id(cls)
    if NO_ORDINAL["on"] and cls not in ("QuantitativeDiscretizer",):
        return make_no_ordinal(cls, **over)
    return make_all(cls, **over)


def make_no_ordinal(cls, **over):
    from AutoCarver import BinaryCarver, ContinuousCarver, MulticlassCarver
    from AutoCarver.discretizers import Discretizer, QualitativeDiscretizer

    if cls in ("BinaryCarver", "ContinuousCarver", "MulticlassCarver"):
        kw = dict(min_freq=0.2, quantitative_features=["q"], qualitative_features=["c"], max_n_mod=3, copy=True)
        if cls != "ContinuousCarver":
            kw["sort_by"] = "tschuprowt"
        kw.update(over)
        return {"BinaryCarver": BinaryCarver, "ContinuousCarver": ContinuousCarver, "MulticlassCarver": MulticlassCarver}[cls](**kw)
    if cls == "Discretizer":
        return Discretizer(quantitative_features=["q"], qualitative_features=["c"], min_freq=0.2, copy=True)
    return QualitativeDiscretizer(qualitative_features=["c"], min_freq=0.2, copy=True)


def make_all(cls, **over):
    from AutoCarver import BinaryCarver, ContinuousCarver, MulticlassCarver
    from AutoCarver.discretizers import Discretizer, QualitativeDiscretizer, QuantitativeDiscretizer

    vo = {"o": ["lo", "mid", "hi"]}
    if cls in ("BinaryCarver", "ContinuousCarver", "MulticlassCarver"):
        kw = dict(min_freq=0.2, quantitative_features=["q"], qualitative_features=["c"], ordinal_features=["o"], values_orders=vo, max_n_mod=3, copy=True)
        if cls != "ContinuousCarver":
            kw["sort_by"] = "tschuprowt"
        kw.update(over)
        return {"BinaryCarver": BinaryCarver, "ContinuousCarver": ContinuousCarver, "MulticlassCarver": MulticlassCarver}[cls](**kw)
    if cls == "Discretizer":
        kw = dict(quantitative_features=["q"], qualitative_features=["c"], min_freq=0.2, ordinal_features=["o"], values_orders=vo, copy=True)
        kw.update(over)
        return Discretizer(**kw)
    if cls == "QualitativeDiscretizer":
        kw = dict(qualitative_features=["c"], min_freq=0.2, ordinal_features=["o"], values_orders=vo, copy=True)
        kw.update(over)
        return QualitativeDiscretizer(**kw)
    kw = dict(quantitative_features=["q"], min_freq=0.2, copy=True)
    kw.update(over)
    return QuantitativeDiscretizer(**kw)


def feats_of(cls):
    return {"QualitativeDiscretizer": ["c", "o"], "QuantitativeDiscretizer": ["q"]}.get(cls, ["q", "c", "o"])


def is_carver(cls):
    return cls.endswith("Carver")


def faults(cls, tier):
    """list of fault descriptors applicable to the class"""
    n = 12
    pos = list(range(n)) if tier != "quick" else [0, 5, 11]
    out = []
    for i in pos:
        out.append({"fault": "y_nan", "pos": i})
    for k in ("shift", "reversed", "shorter", "longer", "strings"):
        out.append({"fault": "y_index", "how": k})
    for k in ("ndarray", "list", "dict"):
        out.append({"fault": "X_type", "how": k})
    for k in ("ndarray", "list", "frame"):
        out.append({"fault": "y_type", "how": k})
    for f in feats_of(cls):
        out.append({"fault": "missing_column", "feature": f})
    if "q" in feats_of(cls):
        for i in pos:
            out.append({"fault": "string_in_quantitative", "pos": i})
        for i in pos[:2]:
            for dt in ("category", "string"):
                out.append({"fault": "string_in_quantitative", "pos": i, "how": dt})
    if "o" in feats_of(cls):
        for i in pos:
            out.append({"fault": "unknown_ordinal", "pos": i})
    if is_carver(cls):
        for k in {"BinaryCarver": ["constant0", "constant1", "three", "no_zero", "strings"], "ContinuousCarver": ["binary", "strings", "constant"], "MulticlassCarver": ["two", "constant"]}[cls]:
            out.append({"fault": "y_classes", "how": k})
        for f in feats_of(cls):
            out.append({"fault": "missing_column_dev", "feature": f})
        for i in pos[:2]:
            out.append({"fault": "y_dev_nan", "pos": i})
        out.append({"fault": "y_dev_index", "how": "shift"})
        out.append({"fault": "y_dev_index", "how": "shorter"})
        out.append({"fault": "ctor_both_lists", "how": "quali"})
        out.append({"fault": "ctor_both_lists", "how": "ordinal"})
        out.append({"fault": "ctor_sort_by", "how": "unknown"})
        for h in ("empty", "none", "zero"):
            out.append({"fault": "ctor_sort_by", "how": h})
        if cls != "ContinuousCarver":
            out.append({"fault": "ctor_sort_by", "how": "kruskal"})
        else:
            out.append({"fault": "ctor_sort_by", "how": "tschuprowt"})
    out.append({"fault": "refit", "how": "same"})
    out.append({"fault": "refit", "how": "other_frame"})
    out.append({"fault": "refit", "how": "with_nan"})
    out.append({"fault": "transform_X_type", "how": "ndarray"})
    for f in feats_of(cls):
        out.append({"fault": "transform_missing_column", "feature": f})
    return out


def apply_fault(cls, fd, X, y, variant):
    """returns ('ctor', kwargs) | ('fit', X, y, X_dev, y_dev) | ('transform', X)"""
    f = fd["fault"]
    Xd = yd = None
    X = X.copy()
    y = y.copy()
    if f == "y_nan":
        y = y.astype(object) if cls == "MulticlassCarver" else y.astype(float)
        y.iloc[fd["pos"]] = np.nan
    elif f == "y_index":
        h = fd["how"]
        if h == "shift":
            y.index = [(i + 1 if isinstance(i, int) else i + "_") for i in y.index]
        elif h == "reversed":
            y.index = list(y.index)[::-1]
        elif h == "shorter":
            y = y.iloc[:-1]
        elif h == "longer":
            y = pd.concat([y, pd.Series([y.iloc[0]], index=[10**6 if isinstance(y.index[0], (int, np.integer)) else "extra"])])
        elif h == "strings":
            y.index = [f"s{i}" for i in range(len(y))]
    elif f == "X_type":
        X = {"ndarray": X.values, "list": X.values.tolist(), "dict": X.to_dict("list")}[fd["how"]]
    elif f == "y_type":
        y = {"ndarray": y.values, "list": y.tolist(), "frame": y.to_frame()}[fd["how"]]
    elif f == "missing_column":
        X = X.drop(columns=[fd["feature"]])
    elif f == "string_in_quantitative":
        X["q"] = X["q"].astype(object)
        X.iloc[fd["pos"], X.columns.get_loc("q")] = "oops"
        if fd.get("how") == "category":  # categories mixing numbers and a string
            X["q"] = X["q"].astype("category")
        elif fd.get("how") == "string":  # pandas string dtype: every value is a str
            X["q"] = X["q"].astype(str).astype("string")
    elif f == "unknown_ordinal":
        X.iloc[fd["pos"], X.columns.get_loc("o")] = "never-ranked"
    elif f == "y_classes":
        h = fd["how"]
        n = len(y)
        vals = {
            "constant0": [0] * n,
            "constant1": [1] * n,
            "three": [i % 3 for i in range(n)],
            "no_zero": [1 + (i % 2) for i in range(n)],
            "strings": ["u" if i % 2 else "v" for i in range(n)] if cls == "BinaryCarver" else [str(i % 4) for i in range(n)],
            "binary": [i % 2 for i in range(n)],
            "constant": [1.5] * n if cls == "ContinuousCarver" else ["x"] * n,
            "two": ["x" if i % 2 else "y" for i in range(n)],
        }[h]
        y = pd.Series(vals, index=y.index)
    elif f in ("missing_column_dev", "y_dev_nan", "y_dev_index"):
        Xd, yd = X.copy(), y.copy()
        if f == "missing_column_dev":
            Xd = Xd.drop(columns=[fd["feature"]])
        elif f == "y_dev_nan":
            yd = yd.astype(object) if cls == "MulticlassCarver" else yd.astype(float)
            yd.iloc[fd["pos"]] = np.nan
        elif fd["how"] == "shift":
            yd.index = [(i + 1 if isinstance(i, (int, np.integer)) else i + "_") for i in yd.index]
        else:
            yd = yd.iloc[:-1]
    elif f == "ctor_both_lists":
        if fd["how"] == "quali":
            return ("ctor", dict(qualitative_features=["c", "q"]))
        return ("ctor", dict(ordinal_features=["o", "q"], values_orders={"o": ["lo", "mid", "hi"], "q": ["1", "2", "3"]}))
    elif f == "ctor_sort_by":
        return ("ctor", dict(sort_by={"unknown": "gini", "kruskal": "kruskal", "tschuprowt": "tschuprowt", "empty": "", "none": None, "zero": 0}[fd["how"]]))
    elif f == "refit":
        if fd["how"] == "other_frame":
            X = X.iloc[::-1].reset_index(drop=True) if variant != 2 else X.iloc[::-1]
            y = pd.Series(list(y)[::-1], index=X.index)
        elif fd["how"] == "with_nan":  # the second sample has missing values (and a new rare category) where the first had none
            X = X.copy()
            for col in ("c", "o", "q"):
                if col in X:
                    vals = X[col].tolist()
                    vals[1], vals[6] = np.nan, np.nan
                    if col == "c":
                        vals[10] = "brand_new"
                    X[col] = pd.Series(vals, index=X.index, dtype=X[col].dtype)
    elif f == "transform_X_type":
        return ("transform", X.values)
    elif f == "transform_missing_column":
        return ("transform", X.drop(columns=[fd["feature"]]))
    return ("fit", X, y, Xd, yd)


def canon_state(obj):
    vo = {f: (tuple(norm(k) for k in o), tuple((norm(k), tuple(norm(v) for v in m)) for k, m in o.content.items())) for f, o in obj.values_orders.items()}
    return repr((sorted(obj.features), sorted(vo.items()), sorted((f, repr(sorted(map(repr, d.items())))) for f, d in obj.labels_per_values.items()), obj.is_fitted))


def snapshot(obj, X):
    snap = {"state": canon_state(obj)}
    try:
        snap["json"] = json.dumps(obj.to_json(), sort_keys=True)
    except Exception as exc:  # noqa
        snap["json"] = f"raises {type(exc).__name__}"
    try:
        out = obj.transform(X.copy())
        snap["transform"] = repr([(c, [("nan" if isinstance(v, float) and math.isnan(v) else v) for v in out[c].tolist()]) for c in out.columns])
    except Exception as exc:  # noqa
        snap["transform"] = f"raises {type(exc).__name__}: {str(exc)[:60]}"
    return snap


def call(obj, action):
    kind = action[0]
    if kind == "fit":
        _, X, y, Xd, yd = action
        if Xd is not None or yd is not None:
            return obj.fit(X, y, X_dev=Xd, y_dev=yd)
        return obj.fit(X, y)
    return obj.transform(action[1])


def run_case(case):
    NO_ORDINAL["on"] = case.get("no_ordinal") or False
    try:
        return _run_case(case)
    finally:
        NO_ORDINAL["on"] = False


def _run_case(case):
    cls, fd, hist, variant = case["cls"], case["fd"], case["history"], case.get("variant", 0)
    X, pat = base_frame(variant)
    y = target(cls, X, pat)
    res = {"violations": [], "sample": dict(case)}
    viol = res["violations"]
    action = apply_fault(cls, fd, X, y, variant)
    name = fd["fault"] + ":" + str(fd.get("how", "")) + str(fd.get("pos", fd.get("feature", "")))
    if action[0] == "ctor":
        if hist != "fresh":
            res["outcome"] = "n/a"
            return res
        try:
            make(cls, **action[1])
            viol.append({"kind": "ctor-accepted:" + fd["fault"], "what": f"{cls}(**{action[1]}) was accepted"})
            res["outcome"] = "accepted"
        except AssertionError:
            res["outcome"] = "ctor:AssertionError"
            res["nontrivial"] = f"{cls}:{name}"
        except Exception as exc:  # noqa
            viol.append({"kind": f"ctor-{type(exc).__name__}:" + fd["fault"], "what": f"{cls} constructor raised {type(exc).__name__}: {str(exc)[:100]} instead of AssertionError"})
            res["outcome"] = "ctor:other"
        return res
    obj = make(cls)
    before = None
    if hist == "fitted":
        obj.fit(X.copy(), y.copy())
        before = snapshot(obj, X)
    elif fd["fault"] in ("refit", "transform_X_type", "transform_missing_column"):
        res["outcome"] = "n/a"
        return res
    try:
        call(obj, action)
        viol.append({"kind": "accepted:" + fd["fault"], "what": f"{cls} [{hist}] {name}: malformed call was accepted"})
        res["outcome"] = f"{hist}:accepted"
    except AssertionError:
        res["outcome"] = f"{hist}:AssertionError"
        res["nontrivial"] = f"{cls}:{hist}:{name}"
    except Exception as exc:  # noqa
        viol.append({"kind": f"{type(exc).__name__}:" + fd["fault"], "what": f"{cls} [{hist}] {name}: raised {type(exc).__name__}: {str(exc)[:100]} ({space.innermost_frame(exc)}) instead of AssertionError"})
        res["outcome"] = f"{hist}:{type(exc).__name__}"
    if before is not None:
        after = snapshot(obj, X)
        for key in ("state", "json", "transform"):
            if before[key] != after[key]:
                viol.append({"kind": f"state-changed:{key}:" + fd["fault"], "what": f"{cls} {name}: {key} of the fitted object differs after the rejected call", "finding": None})
                break
    return res


def replay(case):
    return run_case(case)


def run(tier, seed, rep):
    cases = []
    variants = [seed % 3, 3] if tier == "quick" else [0, 1, 2, 3]
    for cls in CLASSES:
        for fd in faults(cls, tier):
            for hist in ("fresh", "fitted"):
                for v in variants:
                    cases.append({"cls": cls, "fd": fd, "history": hist, "variant": v})
                    # an object whose first (successful) fit dropped every feature must refuse a second fit as well
                    if fd["fault"] == "refit" and hist == "fitted" and cls in ("BinaryCarver", "ContinuousCarver", "Discretizer", "QualitativeDiscretizer"):
                        cases.append({"cls": cls, "fd": fd, "history": hist, "variant": v, "no_ordinal": "only_id"})
                    # the same without any ordinal feature (value-level / refit / type faults only)
                    if fd["fault"] in ("refit", "y_nan", "y_index", "X_type", "y_classes", "transform_X_type") and "feature" not in fd:
                        cases.append({"cls": cls, "fd": fd, "history": hist, "variant": v, "no_ordinal": True})
    rep.rule = (
        "E2 fault enumeration: classes {3 carvers, Discretizer, Qualitative-, QuantitativeDiscretizer} x fault classes of the statement "
        "(target with a missing value at each row position, wrong class count, target indexed differently incl. different length, non-"
        "DataFrame X / non-Series y, missing column in X / X_dev, feature in two lists, string in a quantitative column at each position, "
        "value absent from the ordinal ranking at each position, unsupported sort_by, second fit, malformed transform input) x histories "
        "{fresh object, already fitted object}; oracle: AssertionError, and for a fitted object identical canonical state, JSON export and "
        "transform(X) before/after. non-trivial = distinct (class, history, fault) triples rejected with AssertionError"
    )
    rep.assumptions = ["valid base frame of 12 rows with one quantitative, one categorical and one ordinal feature (3 encodings in thorough)"]
    rep.transitions = 0
    for case, res in zip(cases, pmap(run_case, cases)):
        res["transitions"] = 2 if case["history"] == "fitted" else 1
        rep.record(case, res)
