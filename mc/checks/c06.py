"""C06 — JSON save/load round trip preserves behaviour (E1 over a value-type alphabet)."""
from __future__ import annotations

import json
import math

import numpy as np
import pandas as pd

from .. import space
from ..common import pmap
from . import c04, c05, carving_space

PROP = "C06"

# value-type alphabet: kind -> list of (name, values for k raw modalities, column dtype)
def value_types(kind, k):
    if kind == "QNT":
        return [
            ("f64", [float(i + 1) for i in range(k)], None),
            ("frac", [0.1 * (i + 1) for i in range(k)], None),
            ("big", [1e299 * (i + 1) for i in range(k)], None),
            ("tiny", [1e-300 * (i + 1) for i in range(k)], None),
            ("neg", [-2.5 + i for i in range(k)], None),
            ("f32", [0.1 * (i + 1) for i in range(k)], "float32"),
            ("i64", [int(i + 1) for i in range(k)], "int64"),
            ("scale202300", [202301.0 + i for i in range(k)], None),
            # int64 magnitudes above 2**53, two apart: not representable as float64 (all of them round to 2**60)
            ("i64big", [2**60 + 1 + 2 * i for i in range(k)], "int64"),
        ]
    base = [
        ("str", ["a", "b", "c", "d"][:k], None),
        ("numlike-str", ["1", "1.0", "10", "2"][:k], None),
        ("pyint", [1, 2, 3, 4][:k], None),
        ("npint", [1, 2, 3, 4][:k], "int64"),
        ("float", [1.5, 2.5, 0.1, 1e300][:k], None),
        ("intfloat", [1.0, 2.0, 3.0, 4.0][:k], None),
        ("mixed", [1, 2.0, "3", 4.5][:k], None),
    ]
    return base


def eq_val(a, b):
    na = a is None or (isinstance(a, float) and math.isnan(a))
    nb = b is None or (isinstance(b, float) and math.isnan(b))
    if na or nb:
        return na and nb
    return a == b


def outcome_of(obj, frame, f):
    try:
        out = obj.transform(frame.copy())
        return ("ok", out[f].tolist() if f in out else None, [c for c in out.columns])
    except Exception as exc:  # noqa
        return ("raise", type(exc).__name__, None)


def same_outcome(a, b):
    if a[0] != b[0]:
        return False
    if a[0] == "raise":
        return a[1] == b[1]
    if a[2] != b[2]:
        return False
    if a[1] is None or b[1] is None:
        return a[1] is b[1]
    return len(a[1]) == len(b[1]) and all(eq_val(x, y) for x, y in zip(a[1], b[1]))


def canon_json(o):
    return json.dumps(o, sort_keys=True)


def summary_repr(obj):
    try:
        s = obj.summary().reset_index()
        return repr([(r["feature"], r["dtype"], repr(r["label"]), sorted(map(repr, r["content"]))) for r in s.to_dict("records")])
    except Exception as exc:  # noqa
        return f"raises {type(exc).__name__}"


def roundtrip(obj, X, case, viol, tag=""):
    """dump -> load -> compare transform outcomes, summary and second dump. returns number of frames compared"""
    from AutoCarver import load_carver
    from AutoCarver.discretizers.utils.base_discretizers import load_discretizer

    is_carver = case["type"] == "carver"
    try:
        dumped = json.dumps(obj.to_json())
    except Exception as exc:  # noqa
        viol.append({"kind": tag + "not-serialisable", "what": f"{tag}json.dumps(to_json()) raised {type(exc).__name__}: {str(exc)[:100]}"})
        return 0
    try:
        obj2 = (load_carver if is_carver else load_discretizer)(json.loads(dumped))
    except Exception as exc:  # noqa
        viol.append({"kind": tag + "load-fails", "what": f"{tag}load raised {type(exc).__name__}: {str(exc)[:120]} ({space.innermost_frame(exc)})"})
        return 0
    feats = list(obj.features)
    n = 0
    for f in feats:
        raw = next((r for r, lst in obj.features_casting.items() if f in lst), f)
        if raw != "f":
            continue
        quant = f in obj.quantitative_features
        frames = [("train", X)]
        for t, v in c05.row_alphabet(obj, f, case["kind"], X.rename(columns={raw: f}) if raw != f else X):
            frames.append((t, c05.make_frame(X, raw, [v], quant)))
        frames.append(("empty", c05.make_frame(X, raw, [], quant)))
        for name, fr in frames:
            a, b = outcome_of(obj, fr, f), outcome_of(obj2, fr, f)
            n += 1
            if not same_outcome(a, b):
                viol.append({"kind": tag + "transform-differs", "what": f"{tag}{f} on frame '{name}': original -> {str(a[:2])[:120]}, reloaded -> {str(b[:2])[:120]}"})
                break
    # frames that lack one column (requested features that were dropped must still be required, or not, alike)
    for col in [c for c in X.columns if c != "f"] + ["f"]:
        fr = X.drop(columns=[col])
        a, b = outcome_of(obj, fr, feats[0] if feats else "f"), outcome_of(obj2, fr, feats[0] if feats else "f")
        n += 1
        if a[0] != b[0] or (a[0] == "raise" and a[1] != b[1]):
            viol.append({"kind": tag + "missing-column-differs", "what": f"{tag}frame without column {col!r}: original -> {a[:2]}, reloaded -> {b[:2]}"})
    s1, s2 = summary_repr(obj), summary_repr(obj2)
    if s1 != s2:
        viol.append({"kind": tag + "summary-differs", "what": f"{tag}summary differs after reload: {s1[:150]} vs {s2[:150]}"})
    try:
        dumped2 = json.dumps(obj2.to_json())
        j1, j2 = json.loads(dumped), json.loads(dumped2)
        for j in (j1, j2):
            if isinstance(j.get("values_orders"), str):
                j["values_orders"] = json.loads(j["values_orders"])
        if canon_json(j1) != canon_json(j2):
            diff = [k for k in set(j1) | set(j2) if canon_json(j1.get(k)) != canon_json(j2.get(k))]
            viol.append({"kind": tag + "second-dump-differs:" + ",".join(sorted(diff)), "what": f"{tag}to_json() of the reloaded object differs from the first dump in keys {sorted(diff)}"})
    except Exception as exc:  # noqa
        viol.append({"kind": tag + "second-dump-fails", "what": f"{tag}to_json of the reloaded object raised {type(exc).__name__}: {str(exc)[:100]}"})
    return n


def run_case(case):
    fit, obj = c04.fitted_object(case)
    res = {"violations": [], "sample": dict(case)}
    viol = res["violations"]
    if obj is None:
        res["outcome"] = "fit-" + fit["status"]
        return res
    if not obj.features:
        res["outcome"] = "all-dropped"
        return res
    X = fit["X"]
    feats = list(obj.features)
    n = roundtrip(obj, X, case, viol)
    # manually edited groups (one edit of each mode, applied to fresh copies), then the same oracle
    edited = 0
    if case["type"] == "carver" and case["carver"] != "multiclass" and "f" in obj.features and not viol:
        import pickle

        from . import c17

        blob = pickle.dumps(obj)
        evs = c17.enabled(obj, X, case["kind"])
        picks = [next((e for e in evs if e[0] == "replace"), None), next((e for e in evs if e[0] == "group" and e[1] != "NaN"), None), next((e for e in evs if e[1] == "NaN"), None)]
        for ev in picks:
            if ev is None:
                continue
            o2 = pickle.loads(blob)
            try:
                c17.apply_edit(o2, ev)
            except Exception:  # noqa  (C17 judges the edit itself)
                continue
            n += roundtrip(o2, X, case, viol, tag=f"after update_discretizer{tuple(ev)}: ")
            edited += 1
    res["evaluations"] = n
    res["outcome"] = f"{case['type']}:{case.get('cls', case.get('carver'))}:{case['kind']}:{case['vt']}" + (f":edits{edited}" if edited else "")
    res["nontrivial"] = repr(sorted(case.items(), key=str)) if len(obj.values_orders[feats[0]]) >= 2 else None
    return res


def replay(case):
    return run_case(case)


def enumerate_cases(tier, seed):
    cases, transitions = [], 0
    for kind in ("QNT", "ORD", "CAT"):
        for carver in ("binary", "continuous", "multiclass"):
            alpha = carving_space.alphabet(carver, "quick")[:4]
            tabs, tr = carving_space.tables(carver, "QNT" if kind != "CAT" else "CAT", "quick", kmax=2 if tier == "quick" else 3, alpha=alpha)
            transitions += tr
            if tier == "quick":
                tabs = tabs[:: 2 if carver != "binary" else 1]
            for cells in tabs:
                for vt, values, xdtype in value_types(kind, len(cells)):
                    for nan in (None, alpha[0]):
                        if nan is not None and xdtype == "int64":
                            continue
                        if nan is not None and vt in ("frac", "neg", "numlike-str") and tier == "quick":
                            continue
                        for od, dropna in (("float", True), ("str", True), ("str", False)) if nan is not None else (("float", True), ("str", True)):
                            cfg = {"sort_by": "tschuprowt", "max_n_mod": 3, "min_freq": 0.1, "min_freq_mod": None, "output_dtype": od, "dropna": dropna}
                            c = {"type": "carver", "carver": carver, "kind": kind, "cells": [list(x) for x in cells], "nan": list(nan) if nan else None, "dev": None, "cfg": cfg, "seed": seed, "values": values, "vt": vt}
                            if xdtype:
                                c["xdtype"] = xdtype
                            cases.append(c)
        # carvers fitted with a dev sample (history records the dev tests of every tested combination)
        for carver in ("binary", "continuous"):
            alpha = carving_space.alphabet(carver, "quick")
            tabs, tr = carving_space.tables(carver, "QNT" if kind != "CAT" else "CAT", "quick", kmax=3, alpha=alpha)
            for cells in tabs[:: 2 if tier == "quick" else 1]:
                vt, values, xdtype = value_types(kind, len(cells))[0]
                for name, dcells in carving_space.dev_variants(carver, list(cells), alpha, 1):
                    if not carving_space.valid_target(carver, dcells):
                        continue
                    for mfm in (None, 0.25):
                        cfg = {"sort_by": "cramerv", "max_n_mod": 3, "min_freq": 0.1, "min_freq_mod": mfm, "output_dtype": "float", "dropna": True}
                        cases.append({"type": "carver", "carver": carver, "kind": kind, "cells": [list(x) for x in cells], "nan": None, "dev": {"cells": [list(x) for x in dcells], "nan": None, "name": name}, "cfg": cfg, "seed": seed, "values": values, "vt": vt + "+dev"})
        # carvers next to an id-like feature that is dropped for every class / by the base discretization
        for carver in ("binary", "continuous", "multiclass"):
            alpha = carving_space.alphabet(carver, "quick")[:4]
            tabs, tr = carving_space.tables(carver, "QNT" if kind != "CAT" else "CAT", "quick", kmax=2, alpha=alpha)
            for cells in tabs[:: 3 if tier == "quick" else 1]:
                vt, values, xdtype = value_types(kind, len(cells))[0]
                cfg = {"sort_by": "tschuprowt", "max_n_mod": 3, "min_freq": 0.25, "min_freq_mod": None, "output_dtype": "float", "dropna": True}
                cases.append({"type": "carver", "carver": carver, "kind": kind, "cells": [list(x) for x in cells], "nan": None, "dev": None, "cfg": cfg, "seed": seed, "values": values, "vt": vt + "+id", "companion": "id"})
        # discretizer family
        bal = [(3, 1), (1, 3), (2, 2), (1, 1)]
        tabs, tr = space.construct(bal, 2, 3 if tier == "quick" else 4, ordered=(kind != "CAT"), keep=lambda st: carving_space.valid_target("binary", st))
        transitions += tr
        clss = {"QNT": ["Discretizer", "QuantitativeDiscretizer", "ContinuousDiscretizer"], "ORD": ["Discretizer", "QualitativeDiscretizer", "OrdinalDiscretizer"], "CAT": ["Discretizer", "QualitativeDiscretizer", "CategoricalDiscretizer"]}[kind]
        for cells in tabs:
            for vt, values, xdtype in value_types(kind, len(cells)):
                if kind == "ORD" and vt != "str" and False:
                    continue
                for nan in (None, (2, 2)):
                    if nan is not None and xdtype == "int64":
                        continue
                    for cls in clss:
                        if cls in ("OrdinalDiscretizer", "CategoricalDiscretizer") and vt not in ("str", "numlike-str"):
                            continue  # need string columns
                        for mf in (0.1, 0.25):
                            c = {"type": "disc", "cls": cls, "kind": kind, "cells": [list(x) for x in cells], "nan": list(nan) if nan else None, "min_freq": mf, "target": "binary", "seed": seed, "companion": None, "values": values, "vt": vt}
                            if xdtype:
                                c["xdtype"] = xdtype
                            cases.append(c)
    transitions += len(cases)
    return cases, transitions


def run(tier, seed, rep):
    cases, transitions = enumerate_cases(tier, seed)
    rep.rule = (
        "E1 over the value-type alphabet: quantitative columns (float64, fractions, 1e299.., 1e-300.., negative, float32, int64, "
        "x+202300) and qualitative columns (strings, number-looking strings, python ints, numpy int64, floats, integer-valued floats, "
        "mixed) x small tables x missing cell x Binary/Continuous/MulticlassCarver and the Discretizer family; oracle: json.dumps "
        "succeeds, the reloaded object gives the same transform outcome (values or exception class) on the training frame, every "
        "one-row frame of the C05 row alphabet and the empty frame, the same summary, and the same JSON when dumped again. "
        "non-trivial = fitted feature with >= 2 groups"
    )
    rep.assumptions = ["values_orders inside to_json() is a JSON string and is compared as a JSON value"]
    rep.transitions = transitions
    for case, res in zip(cases, pmap(run_case, cases)):
        res["transitions"] = 0
        rep.record(case, res)
