"""C02 — carved features respect max_n_mod, min_freq_mod and dev robustness.
Purely observational oracle on carver.transform(X_train) / transform(X_dev); same E1 space as C01."""
from __future__ import annotations

from fractions import Fraction as F

import numpy as np

from .. import space
from ..common import pmap
from ..ref.carver import freq_ok
from . import carving_space
from .c01 import resolved_cfg, space_key

PROP = "C02"


def isnan(v):
    return isinstance(v, float) and np.isnan(v)


def label_stats(labels, ys):
    """label -> (count, sum of y) over non-missing labels; number of missing labels"""
    st = {}
    nmiss = 0
    for l, yv in zip(labels, ys):
        if isnan(l) or l is None:
            nmiss += 1
            continue
        c = st.setdefault(l, [0, F(0)])
        c[0] += 1
        c[1] += F(yv).limit_denominator(10**9)
    return st, nmiss


def check_sample(name, out_col, X_col, y, cfg, viol, flags):
    labels = out_col.tolist()
    st, nmiss = label_stats(labels, y.tolist())
    n = len(labels)
    in_nan = [isnan(v) or v is None for v in X_col.tolist()]
    dropna = cfg["dropna"]
    if len(st) > cfg["max_n_mod"]:
        viol.append({"kind": "max_n_mod", "what": f"{name}: {len(st)} distinct non-missing labels > max_n_mod={cfg['max_n_mod']}"})
    if dropna:
        if nmiss:
            viol.append({"kind": "missing-output", "what": f"{name}: {nmiss} missing outputs although dropna=True"})
        denom = n
    else:
        out_nan = [isnan(v) or v is None for v in labels]
        if out_nan != in_nan:
            viol.append({"kind": "nan-not-preserved", "what": f"{name}: missing values are not preserved in place with dropna=False"})
        denom = n - sum(in_nan)
    for l, (c, _s) in sorted(st.items(), key=lambda kv: str(kv[0])):
        ok = freq_ok(c, denom, cfg["min_freq_mod"])
        if ok is None:
            flags["dont_care"] += 1
        elif ok is False:
            viol.append({"kind": "min_freq_mod", "what": f"{name}: label {l!r} carries {c}/{denom} rows < min_freq_mod={cfg['min_freq_mod']}"})
        if F(c, denom) == F(repr(float(cfg["min_freq_mod"]))):
            flags["at_threshold"] = True
    return st


def run_case(case):
    fit = space.fit_carver(case)
    res = {"violations": [], "sample": {k: case[k] for k in ("carver", "kind", "cells", "nan", "dev", "cfg")}}
    if fit["status"] != "ok":
        res["outcome"] = "fit-" + fit["status"]
        return res
    carver = fit["carver"]
    if "f" not in carver.features:
        res["outcome"] = "dropped"
        return res
    cfg = resolved_cfg(case)
    flags = {"dont_care": 0, "at_threshold": False}
    viol = res["violations"]
    X, y, Xd, yd = fit["X"], fit["y"], fit["Xd"], fit["yd"]
    try:
        out = carver.transform(X)
    except Exception as exc:  # noqa
        viol.append({"kind": "transform-raises", "what": f"transform(X_train) raised {type(exc).__name__}: {str(exc)[:100]}"})
        res["outcome"] = "transform-raises"
        return res
    st = check_sample("train", out["f"], X["f"], y, cfg, viol, flags)
    tags = ["kept"]
    if case.get("nan") is not None:
        tags.append("nan")
    if Xd is not None:
        tags.append("dev")
        try:
            outd = carver.transform(Xd)
        except Exception as exc:  # noqa
            viol.append({"kind": "transform-dev-raises", "what": f"transform(X_dev) raised {type(exc).__name__}: {str(exc)[:100]}"})
            res["outcome"] = "transform-dev-raises"
            return res
        sd = check_sample("dev", outd["f"], Xd["f"], yd, cfg, viol, flags)
        if set(sd) != set(st):
            viol.append({"kind": "dev-label-set", "what": f"dev label set {sorted(map(str, sd))} != train label set {sorted(map(str, st))}"})
        else:
            labs = list(st)
            strict_inv = False
            tie = False
            for i in range(len(labs)):
                for j in range(i + 1, len(labs)):
                    a, b = st[labs[i]][1] / st[labs[i]][0], st[labs[j]][1] / st[labs[j]][0]
                    c, d = sd[labs[i]][1] / sd[labs[i]][0], sd[labs[j]][1] / sd[labs[j]][0]
                    s1, s2 = (a > b) - (a < b), (c > d) - (c < d)
                    if s1 == 0 or s2 == 0:
                        tie = True
                    elif s1 != s2:
                        strict_inv = True
            if strict_inv:
                viol.append({"kind": "dev-ranking", "what": "labels are ranked differently by target rate on train and dev"})
            elif tie:
                flags["dont_care"] += 1
        if any(sum(c) == 0 for c in case["dev"]["cells"]):
            tags.append("modality-absent-from-dev")
    if flags["at_threshold"]:
        tags.append("at-threshold")
    if len(st) == cfg["max_n_mod"]:
        tags.append("n=max_n_mod")
    res["dont_care"] = flags["dont_care"]
    res["outcome"] = "+".join(tags) + (":VIOLATION" if viol else "")
    if len(tags) > 1:
        res["nontrivial"] = space_key(case)
    res["sample"]["labels"] = {str(k): v[0] for k, v in st.items()}
    return res


def replay(case):
    return run_case(case)


def run(tier, seed, rep, carvers=("binary", "continuous")):
    cases, transitions = [], 0
    for carver in carvers:
        cs, tr = carving_space.enumerate_cases(carver, tier, seed)
        cases += cs
        transitions += tr
    rep.rule = (
        "same E1 state space as C01 (construction BFS x configuration / missing-value / dev deviations); oracle reads only "
        "transform(X_train) and transform(X_dev): #labels <= max_n_mod, every label >= min_freq_mod (exact rationals), missing "
        "outputs per dropna, dev label set / frequencies / ranking. non-trivial = kept feature with a group exactly at the "
        "threshold, with missing values, with a dev sample, or with exactly max_n_mod labels"
    )
    rep.assumptions = ["frequency exactly on a non-dyadic threshold and rate ties between labels are DONT_CARE"]
    rep.transitions = transitions
    for case, res in zip(cases, pmap(run_case, cases)):
        res["transitions"] = 0
        rep.record(case, res)
