"""C11 — carving is invariant under information-preserving re-encodings (E1 metamorphic)."""
from __future__ import annotations

import itertools
import math

import numpy as np
import pandas as pd

from .. import space
from ..common import pmap
from . import carving_space

PROP = "C11"
# exact maps; the last two make the spread tiny relative to the magnitude / the magnitude tiny (absolute or relative
# closeness tests on cut points would collapse distinct values)
# (x+7 and x+97 move the cut points across a power of ten: the interval labels then sort differently as strings)
AFFINE = [(2.0, 0.0), (0.5, 0.0), (1.0, 3.0), (4.0, -7.0), (1024.0, 0.0), (1.0, float(2**20)), (2.0**-30, 0.0), (1.0, 7.0), (1.0, 97.0)]
# order-preserving renamings of NAME_SETS[0] = m0..m7 (alphabetical order == rank)
RENAMES = [
    {f"m{i}": f"n{i}x" for i in range(8)},
    {f"m{i}": n for i, n in enumerate(["A", "B", "C", "a", "b", "c", "d", "e"])},
]
# rank-preserving but alphabetically scrambled renaming (ordinal features only)
SCRAMBLE = {f"m{i}": n for i, n in enumerate(["q", "c", "x", "a", "m", "b", "z", "d"])}


def isnan(v):
    return v is None or (isinstance(v, float) and math.isnan(v))


def fit_partition(case, X, y, vals_rank, ids, Xd=None, yd=None):
    """fit the carver of `case` on (X, y); returns (kept?, partition of ids) or ('raise', type)"""
    kw = space.carver_kwargs(case, vals_rank)
    try:
        carver = space.carver_class(case["carver"])(**kw)
        if Xd is not None:
            carver.fit(X, y, X_dev=Xd, y_dev=yd)
        else:
            carver.fit(X, y)
        if "f" not in carver.features:
            return ("dropped", None)
        out = carver.transform(X)["f"].tolist()
    except AssertionError as exc:
        return ("assert", None)
    except Exception as exc:  # noqa
        return ("raise:" + type(exc).__name__, None)
    part = {}
    for i, v in zip(ids, out):
        part.setdefault("NaN" if isnan(v) else ("v", v), []).append(i)
    return ("kept", sorted(sorted(b) for b in part.values()))


def row_generators(n, tier):
    gens = [("reverse", list(range(n))[::-1])]
    rots = range(1, n) if tier != "quick" else sorted({1, n // 2, n - 1})
    for r in rots:
        gens.append((f"rot{r}", [(i + r) % n for i in range(n)]))
    trs = range(n - 1) if tier != "quick" else sorted({0, n // 2, n - 2})
    for t in trs:
        p = list(range(n))
        p[t], p[t + 1] = p[t + 1], p[t]
        gens.append((f"swap{t}", p))
    return gens


def run_case(case):
    X, y, Xd, yd, vals = space.build_frames(case)
    n = len(X)
    ids = list(range(n))
    res = {"violations": [], "sample": dict(case), "evaluations": 0}
    viol = res["violations"]
    base = fit_partition(case, X, y, vals, ids, Xd, yd)
    if base[0] not in ("kept", "dropped"):
        res["outcome"] = "base-" + base[0]
        return res
    tier = case.get("tier", "quick")
    variants = []
    # row permutations (with their index)
    if n <= 6 and tier != "quick":
        for p in itertools.permutations(range(n)):
            variants.append((f"perm{p}", X.iloc[list(p)], y.iloc[list(p)], vals, list(p), False))
    else:
        for name, p in row_generators(n, tier):
            variants.append((name, X.iloc[p], y.iloc[p], vals, p, False))
        fcol = X["f"]
        order = sorted(range(n), key=lambda i: (isnan(fcol.iloc[i]), str(type(fcol.iloc[i])), fcol.iloc[i] if not isnan(fcol.iloc[i]) else 0, -i))
        variants.append(("sort-by-feature-desc-ties", X.iloc[order], y.iloc[order], vals, order, False))
        order = sorted(range(n), key=lambda i: (y.iloc[i], -i))
        variants.append(("sort-by-y", X.iloc[order], y.iloc[order], vals, order, False))
    # index relabelings
    for name, idx in (("index+1000", [i + 1000 for i in ids]), ("index-reversed-ints", ids[::-1]), ("index-strings", [f"r{(7 * i) % n if math.gcd(7, n) == 1 else i}" for i in ids])):
        X2, y2 = X.copy(), y.copy()
        X2.index = idx
        y2.index = idx
        variants.append((name, X2, y2, vals, ids, False))
    # affine maps / renamings
    if case["kind"] == "QNT":
        # shifts that put a cut point exactly on 0.0 (a falsy boundary)
        zero_shifts = [(1.0, -float(v)) for v in sorted(set(vals))[:2]]
        for a, b in AFFINE + zero_shifts:
            X2 = X.copy()
            X2["f"] = X2["f"] * a + b
            back = (X2["f"] - b) / a
            if not all((isnan(u) and isnan(v)) or u == v for u, v in zip(back.tolist(), X["f"].tolist())):
                raise RuntimeError("affine map is not exact on this data")
            Xd2 = None
            if Xd is not None:
                Xd2 = Xd.copy()
                Xd2["f"] = Xd2["f"] * a + b
            variants.append((f"affine{a},{b}", X2, y, vals, ids, False, Xd2))
    else:
        tie = rate_ties(case)
        maps = list(RENAMES) + ([SCRAMBLE] if case["kind"] == "ORD" else [])
        for mi, mp in enumerate(maps):
            if not all(v in mp for v in vals):
                continue
            X2 = X.copy()
            X2["f"] = X2["f"].map(lambda v: mp.get(v, v) if not isnan(v) else v).astype(object)
            v2 = [mp[v] for v in vals]
            # categorical features are ordered by target rate: the order of equal-rate categories may legitimately follow
            # their names (also relative to the missing-value sentinel) -> DONT_CARE under renaming when rates tie
            variants.append((f"rename{mi}", X2, y, v2, ids, tie and (mp is SCRAMBLE or case["kind"] == "CAT")))
    distinct = 0
    if Xd is not None:  # dev-sample states: the dev sample is re-encoded with the train sample (affine maps); row generators are reduced
        variants = [v for v in variants if v[0].startswith(("affine", "reverse", "index-strings", "sort-by-y"))]
    for name, X2, y2, v2, p, dont_care, *rest in variants:
        got = fit_partition(case, X2, y2, v2, p, rest[0] if rest and rest[0] is not None else Xd, yd)
        res["evaluations"] += 1
        if got[0] != base[0] or got[1] != base[1]:
            if dont_care:
                res["dont_care"] = res.get("dont_care", 0) + 1
                continue
            viol.append(
                {
                    "kind": "not-invariant:" + name.rstrip("0123456789,.-()' "),
                    "what": f"{name}: base fit -> {base[0]} {base[1]}, re-encoded fit -> {got[0]} {got[1]}",
                    # F20 (tie broken by label-dependent float noise) can only explain re-encodings that change the labels
                    "finding": "F20" if name.startswith(("affine", "rename")) and both_optimal(case, base, got) else None,
                }
            )
            if len(viol) >= 4:
                break
    res["transitions"] = res["evaluations"]
    res["outcome"] = f"{case['carver']}:{case['kind']}:{base[0]}"
    if base[0] == "kept":
        res["nontrivial"] = repr(sorted(case.items(), key=str))
    return res


def both_optimal(case, base, got):
    """explanation F20: both fits kept the feature and both groupings are arg-max of the measure among the
    viable candidates on the base data (an exact tie, broken by floating-point noise that depends on labels)"""
    from ..ref import carver as refcarver
    from . import c01

    if base[0] != "kept" or got[0] != "kept":
        return False
    obs = c01.observe(case)
    if "base" not in obs or obs.get("observed") is None:
        return False
    cells = case["cells"]
    row_base = []
    for ci, c in enumerate(cells):
        n = (c[0] + c[1]) if case["carver"] == "binary" else len(c)
        row_base += [obs["raw_to_base"][ci]] * n
    n_nan = 0
    if case.get("nan") is not None:
        n_nan = sum(case["nan"]) if case["carver"] == "binary" else len(case["nan"])
    row_base += ["nan"] * n_nan
    cfg = c01.resolved_cfg(case)
    for part in (base[1], got[1]):
        groups, nan_pos = [], None
        for blk in sorted(part, key=lambda b: min([row_base[i] for i in b if row_base[i] != "nan"] or [10**6])):
            idx = sorted({row_base[i] for i in blk if row_base[i] != "nan"})
            has_nan = any(row_base[i] == "nan" for i in blk)
            if has_nan:
                nan_pos = "alone" if not idx else len(groups)
            if idx:
                groups.append(idx)
        ok, _why, _info = refcarver.judge(obs["base"], obs["nan"], obs.get("dev_base"), obs.get("dev_nan"), cfg, (groups, nan_pos))
        if not ok:
            return False
    return True


def rate_ties(case):
    from fractions import Fraction as F

    rates = []
    for c in case["cells"]:
        if case["carver"] == "binary":
            rates.append(F(c[1], c[0] + c[1]))
        else:
            rates.append(F(sum(c), len(c)))
    return len(set(rates)) != len(rates)


def replay(case):
    return run_case(case)


def enumerate_cases(tier, seed):
    cases, transitions = [], 0
    for carver in ("binary", "continuous"):
        full = carving_space.alphabet(carver, "quick")
        for kind in ("ORD", "QNT", "CAT"):
            # categorical tables are multisets (few): use the full alphabet so that equal-rate categories of different sizes occur
            alpha = full if (tier != "quick" or kind == "CAT") else full[:4]
            tabs, tr = carving_space.tables(carver, kind, tier, kmax=3, alpha=alpha)
            transitions += tr
            for cells in tabs:
                for nan in (None, alpha[1]):
                    for cfg in [{"sort_by": "tschuprowt", "max_n_mod": 3, "min_freq": 0.1, "min_freq_mod": None, "output_dtype": "float", "dropna": True}] + (
                        [{"sort_by": "tschuprowt", "max_n_mod": 3, "min_freq": 0.1, "min_freq_mod": 0.25, "output_dtype": "float", "dropna": True}] if (kind == "CAT" and nan is None) else []
                    ) + (
                        [{"sort_by": "cramerv", "max_n_mod": 2, "min_freq": 0.25, "min_freq_mod": None, "output_dtype": "str", "dropna": False}] if tier != "quick" else []
                    ):
                        # names of set 0 (m0..) so that renamings apply; quantitative scale from the seed
                        cases.append({"carver": carver, "kind": kind, "cells": [list(c) for c in cells], "nan": list(nan) if nan else None, "dev": None, "cfg": cfg, "seed": 0 if kind != "QNT" else seed, "tier": tier})
    # quantitative features with a sparse segment of single-row values between over-represented values (the quantile
    # search falls back to 'one bucket for the remaining values' there)
    big, t0, t1 = (4, 4), (1, 0), (0, 1)
    sparse = [[big, t0, t1, big], [big, t1, t0, big], [big, t0, t1], [t0, t1, big], [big, t0, t1, t0, big], [(6, 2), t1, t1, (2, 6)], [big, t0, t0, t1, (6, 2)]]
    # a rare value between two frequent ones (its neighbour is chosen by target rate) and a sparse, not over-represented upper tail
    sparse += [[big, t0, (6, 2), t1, t0], [(6, 2), t1, (2, 6), t0, t1], [(2, 6), t0, (6, 2), t1], [big, t1, (6, 2), t1, t0, t1], [(6, 2), (1, 1), (2, 6), t0, t1], [(2, 6), (1, 1), (6, 2), (1, 1), t1]]
    # ... and an upper tail of >= 5 single-row values (cut by a real quantile, so that even the last interval is observed)
    for a, b in (((6, 2), (2, 6)), ((2, 6), (6, 2)), ((4, 4), (6, 2))):
        for r in (t0, t1):
            sparse += [[a, r, b, t0, t1, t0, t1, t1], [a, r, b, t1, t0, t1, t0, t0, t1], [a, b, r, a, t0, t1, t1, t0, t1]]
    for cells in sparse:
        for nan in (None, (2, 2)):
            cases.append({"carver": "binary", "kind": "QNT", "cells": [list(c) for c in cells], "nan": list(nan) if nan else None, "dev": None, "cfg": {"sort_by": "cramerv", "max_n_mod": 5, "min_freq": 0.1, "min_freq_mod": None, "output_dtype": "float", "dropna": True}, "seed": seed, "tier": tier})
    # dev samples (rates tied or ranked differently on dev) x cut points whose labels sort differently as strings once
    # the feature is rescaled (1, 9, 20, 30 -> 2, 18, 40, 60)
    full = carving_space.alphabet("binary", "quick")
    tabs, tr = carving_space.tables("binary", "QNT", tier, kmax=4, alpha=full[:4])
    tabs = [t for t in tabs if len(t) == 4]
    transitions += tr
    for cells in tabs[:: 3 if tier == "quick" else 1]:
        for name, dcells in carving_space.dev_variants("binary", list(cells), full[:4], 1 if tier == "quick" else 2):
            if not carving_space.valid_target("binary", dcells):
                continue
            dev = {"cells": [list(x) for x in dcells], "nan": None, "name": name}
            cases.append({"carver": "binary", "kind": "QNT", "cells": [list(c) for c in cells], "nan": None, "dev": dev, "cfg": {"sort_by": "tschuprowt", "max_n_mod": 4, "min_freq": 0.05, "min_freq_mod": None, "output_dtype": "float", "dropna": True}, "seed": seed, "tier": tier, "values": [1.0, 9.0, 20.0, 30.0]})
    # continuous targets in tenths: groups whose means are mathematically equal but are summed in different orders
    dec = [(1, 2, 3), (3, 1, 2), (2, 2, 2), (0, 1), (4, 5)]
    tabs, tr = space.construct(dec, 2, 3, ordered=True)
    transitions += tr
    for cells in tabs:
        for kind in ("ORD", "QNT"):
            cases.append({"carver": "continuous", "kind": kind, "cells": [list(c) for c in cells], "nan": None, "dev": None, "cfg": {"max_n_mod": 3, "min_freq": 0.1, "min_freq_mod": None, "output_dtype": "float", "dropna": True}, "seed": 0 if kind != "QNT" else seed, "tier": tier, "yscale": 0.1})
    if tier != "quick":
        # tiny frames (N <= 6): all row permutations
        for cells in [[(1, 1), (1, 1), (0, 1)], [(1, 0), (0, 1), (1, 1)], [(2, 0), (1, 1), (0, 2)], [(1, 1), (2, 1)], [(1, 0), (1, 1), (0, 1), (1, 0)]]:
            for kind in ("ORD", "QNT", "CAT"):
                cases.append({"carver": "binary", "kind": kind, "cells": [list(c) for c in cells], "nan": None, "dev": None, "cfg": {"sort_by": "tschuprowt", "max_n_mod": 3, "min_freq": 0.1, "min_freq_mod": None, "output_dtype": "float", "dropna": True}, "seed": 0, "tier": tier})
    transitions += len(cases)
    return cases, transitions


def run(tier, seed, rep):
    cases, transitions = enumerate_cases(tier, seed)
    rep.rule = (
        "E1 metamorphic: every state of a reduced carving space (Binary/ContinuousCarver, kinds ORD/QNT/CAT, k<=3, with/without missing cell) "
        "and its orbit under the generators: row permutations carried with their index (all N! for N<=6 in thorough; else reverse, rotations, "
        "adjacent transpositions, sort by feature, sort by target -- a subset of rotations/transpositions in quick), index relabelings "
        "(+1000, reversed ints, strings), exact affine maps of a quantitative feature (5 maps, exactness asserted), order-preserving category "
        "renamings (and a rank-preserving alphabetically scrambled one for ordinal features); differential oracle: same kept/dropped verdict "
        "and same partition of row identities. evaluations = re-encoded fits; non-trivial = states whose base fit keeps the feature"
    )
    rep.assumptions = ["an alphabetically scrambled renaming of an ordinal feature with target-rate ties is DONT_CARE"]
    rep.transitions = transitions
    for case, res in zip(cases, pmap(run_case, cases, chunksize=2)):
        tr = res.pop("transitions", 0)
        rep.record(case, dict(res, transitions=tr))
