"""C18 — ChainedDiscretizer merges rare values only along the supplied hierarchy (E1 + RefChained)."""
from __future__ import annotations

import contextlib
import io
import itertools
import math

import numpy as np
import pandas as pd

from .. import space
from ..common import pmap
from ..ref.chained import ref_chained

PROP = "C18"
STR_NAN = "__NAN__"

# (leaves, levels) -- 2-3 levels, uneven fan-out
SHAPES = [
    (["a1", "a2", "b1"], [{"A": ["a1", "a2"], "B": ["b1"]}]),
    (["a1", "a2", "b1", "b2"], [{"A": ["a1", "a2"], "B": ["b1", "b2"]}, {"ALL": ["A", "B"]}]),
    (["a1", "a2", "a3", "b1"], [{"A": ["a1", "a2", "a3"], "B": ["b1"]}, {"ALL": ["A", "B"]}]),
    (["a1", "a2", "b1", "c1"], [{"A": ["a1", "a2"], "B": ["b1"], "C": ["c1"]}, {"AB": ["A", "B"], "CC": ["C"]}, {"ALL": ["AB", "CC"]}]),
    (["a1", "b1", "b2", "b3", "c1"], [{"A": ["a1"], "B": ["b1", "b2", "b3"], "C": ["c1"]}, {"TOP": ["A", "B", "C"]}]),
]
RENAMES = [None, {"a1": "z9", "a2": "10", "b1": "9", "A": "~A", "B": "0B"}]


def isnan(v):
    return v is None or (isinstance(v, float) and math.isnan(v))


def rename(shape, mapping):
    if not mapping:
        return shape
    r = lambda v: mapping.get(v, v)  # noqa
    leaves, levels = shape
    return ([r(v) for v in leaves], [{r(p): [r(c) for c in ch] for p, ch in lvl.items()} for lvl in levels])


def run_case(case):
    from AutoCarver.discretizers import ChainedDiscretizer, GroupedList

    leaves, levels = rename(SHAPES[case["shape"]], RENAMES[case["rename"]])
    counts = dict(zip(leaves, case["counts"]))
    # rows that carry the label of an intermediate node of the hierarchy (also a known value)
    for pname, pc in zip(list(levels[0]), case.get("parent_counts") or []):
        if pc:
            counts[pname] = pc
    n_nan, n_unk = case["n_nan"], case["n_unknown"]
    unknowns = ["??unknown", "??other-unknown", "??third"][:n_unk]
    if case.get("unknown_kind") == "empty" and n_unk:
        unknowns = [""] + unknowns[: n_unk - 1]
    numeric = bool(case.get("numeric"))
    if numeric:
        # the column holds integer codes, the hierarchy is written with their string forms; an unknown value is a number too
        code = {v: i + 1 for i, v in enumerate(leaves)}
        leaves_s = [str(code[v]) for v in leaves]
        levels = [{p: [str(code[c]) if c in code else c for c in ch] for p, ch in lvl.items()} for lvl in levels]
        counts = {str(code[k]) if k in code else k: v for k, v in counts.items()}
        leaves = leaves_s
        unknowns = [99, 98, 97][:n_unk]
    xs = [v for v, c in counts.items() for _ in range(c)] + unknowns + [np.nan] * n_nan
    if numeric:
        xs = [int(v) if isinstance(v, str) and v.isdigit() else v for v in xs]
    X = pd.DataFrame({"h": pd.Series(xs, dtype=object)})
    if case.get("index") == "dup":  # repeated index labels (frames concatenated without ignore_index): rows i and i+m share a label
        m = (len(xs) + 1) // 2
        X.index = [i % m for i in range(len(xs))]
    mf = case["min_freq"]
    res = {"violations": [], "sample": dict(case)}
    viol = res["violations"]
    try:
        with contextlib.redirect_stdout(io.StringIO()):
            chained = [GroupedList({p: list(ch) for p, ch in lvl.items()}) for lvl in levels]
            d = ChainedDiscretizer(["h"], mf, chained, unknown_handling=case["unknown_handling"], copy=True)
            d.fit(X)
    except AssertionError as exc:
        if n_unk and case["unknown_handling"] == "raise":
            res["outcome"] = "unknown:raise:AssertionError"
            res["nontrivial"] = "unknown-raise"
        else:
            res["outcome"] = "AssertionError"
            viol.append({"kind": "spurious-assert", "what": f"fit raised AssertionError without unknown value: {str(exc)[:120]}"})
        return res
    except Exception as exc:  # noqa
        res["outcome"] = "internal"
        viol.append({"kind": f"internal-{type(exc).__name__}", "what": f"fit raised {type(exc).__name__}: {str(exc)[:120]} ({space.innermost_frame(exc)})"})
        return res
    if "h" not in d.features:
        # the feature is not discretized at all (no modality reaches min_freq): outside the statement
        res["outcome"] = "dropped(no modality reaches min_freq)"
        return res
    if n_unk and case["unknown_handling"] == "raise":
        viol.append({"kind": "unknown-not-rejected", "what": "unknown value accepted although unknown_handling='raise'"})
        res["outcome"] = "unknown-accepted"
        return res
    vo = d.values_orders["h"]
    ref, at_thr = ref_chained(levels, counts, n_nan + n_unk, mf)
    from fractions import Fraction as F

    dyadic = F(float(mf)) == F(repr(float(mf)))
    if at_thr and not dyadic:
        res["outcome"] = "dont-care(threshold)"
        res["dont_care"] = 1
        return res
    known = set(leaves) | {p for lvl in levels for p in lvl}
    missing = sorted(k for k in known if not vo.contains(k))
    if missing:
        viol.append({"kind": "known-value-lost", "what": f"values {missing} of the hierarchy are no longer in values_orders"})
    ancestors = {}
    for lvl in levels:
        for p, ch in lvl.items():
            for c in ch:
                ancestors[c] = p

    def anc_chain(v):
        out = []
        while v in ancestors:
            v = ancestors[v]
            out.append(v)
        return out

    merged = 0
    for v in list(counts):
        g = vo.get_group(v)
        if g != ref[v]:  # never-observed values included: their frequency is 0 < min_freq
            viol.append({"kind": "wrong-group", "what": f"value {v!r} (count {counts[v]}) is in group {g!r}, reference model says {ref[v]!r}"})
        if g != v:
            merged += 1
            if g not in anc_chain(v):
                viol.append({"kind": "not-an-ancestor", "what": f"value {v!r} merged into {g!r} which is not one of its ancestors {anc_chain(v)}"})
    for u in unknowns:
        g = vo.get_group(u)
        if g != vo.get_group(STR_NAN) or not vo.contains(u):
            viol.append({"kind": "unknown-not-with-nan", "what": f"unknown value {u!r} is in group {g!r}, missing values in {vo.get_group(STR_NAN)!r}"})
    if n_unk:
        from .c08 import wellformed_order

        for e in wellformed_order(vo)[:1]:
            viol.append({"kind": "malformed-order", "what": f"values_orders after unknown_handling='drop': {e}"})
    # transform outputs the group leader
    try:
        with contextlib.redirect_stdout(io.StringIO()):
            out = d.transform(X)["h"].tolist()
        for xv, o in zip(xs, out):
            if isnan(xv) or xv in unknowns:
                if not (isnan(o) or o == STR_NAN):
                    viol.append({"kind": "transform-nan", "what": f"missing/unknown value mapped to {o!r}"})
                    break
                continue
            exp = vo.get_group(xv)
            if o != exp:
                viol.append({"kind": "transform-leader", "what": f"transform maps {xv!r} to {o!r}, its group leader is {exp!r}"})
                break
    except Exception as exc:  # noqa
        viol.append({"kind": "transform-raises", "what": f"transform(X) raised {type(exc).__name__}: {str(exc)[:100]}"})
    res["outcome"] = f"shape{case['shape']}:merged{merged}" + (":unknown-drop" if n_unk else "")
    if merged or n_unk:
        res["nontrivial"] = repr(sorted(case.items(), key=str))
    return res


def replay(case):
    return run_case(case)


def enumerate_cases(tier, seed):
    cases = []
    transitions = 0
    cnts = [0, 1, 2, 5, 12] if tier == "thorough" else [0, 1, 3, 8]
    mfs = [0.1, 0.25, 0.4]
    shapes = range(len(SHAPES)) if tier == "thorough" else range(4)
    for si in shapes:
        leaves, _ = SHAPES[si]
        for cnt in itertools.product(cnts, repeat=len(leaves)):
            transitions += 1
            if sum(cnt) < 2:
                continue
            for n_nan in (0, 3):
                for mf in mfs:
                    for rn in (0, 1) if (tier == "thorough" or si < 2) else (0,):
                        cases.append({"shape": si, "counts": list(cnt), "n_nan": n_nan, "n_unknown": 0, "min_freq": mf, "unknown_handling": "raise", "rename": (rn + seed) % 2 if False else rn})
                    if si < 2 or tier == "thorough":  # repeated index labels
                        cases.append({"shape": si, "counts": list(cnt), "n_nan": n_nan, "n_unknown": 0, "min_freq": mf, "unknown_handling": "raise", "rename": 0, "index": "dup"})
                    if si < 2 or tier == "thorough":  # the data also holds labels of intermediate nodes
                        for pc in ([3, 0], [8, 8], [1, 5]):
                            cases.append({"shape": si, "counts": list(cnt), "n_nan": n_nan, "n_unknown": 0, "min_freq": mf, "unknown_handling": "raise", "rename": 0, "parent_counts": pc})
                    if n_nan == 0 or tier == "thorough":
                        for uh in ("raise", "drop"):
                            for nu in (1, 2) if (tier == "thorough" or si < 2) else (1,):
                                cases.append({"shape": si, "counts": list(cnt), "n_nan": n_nan, "n_unknown": nu, "min_freq": mf, "unknown_handling": uh, "rename": 0})
                            if si < 2 or tier == "thorough":
                                # the unknown value is the empty string / the column holds numbers
                                cases.append({"shape": si, "counts": list(cnt), "n_nan": n_nan, "n_unknown": 1, "min_freq": mf, "unknown_handling": uh, "rename": 0, "unknown_kind": "empty"})
                                cases.append({"shape": si, "counts": list(cnt), "n_nan": n_nan, "n_unknown": 1, "min_freq": mf, "unknown_handling": uh, "rename": 0, "numeric": True})
                        if si < 2:
                            cases.append({"shape": si, "counts": list(cnt), "n_nan": n_nan, "n_unknown": 0, "min_freq": mf, "unknown_handling": "raise", "rename": 0, "numeric": True})
    transitions += len(cases)
    return cases, transitions


def run(tier, seed, rep):
    cases, transitions = enumerate_cases(tier, seed)
    rep.rule = (
        "E1: hierarchy shapes (2-3 levels, uneven fan-out, <=5 leaves) x every leaf count vector over {0,1,3,8} (thorough {0,1,2,5,12}) "
        "x missing rows x min_freq {0.1,0.25,0.4} x unknown value x unknown_handling x a renaming whose alphabetical order differs; "
        "oracle RefChained (bottom-up, exact rationals): every known value still present, each observed leaf in the group the model "
        "predicts, merged values sit in an ancestor, unknown -> AssertionError / merged with missing, transform outputs the group "
        "leader. non-trivial = at least one merge or an unknown value"
    )
    rep.assumptions = ["a frequency exactly on a non-dyadic threshold is DONT_CARE", "features dropped because no modality reaches min_freq are outside the statement (counted as an outcome class)"]
    rep.transitions = transitions
    for case, res in zip(cases, pmap(run_case, cases)):
        res["transitions"] = 0
        rep.record(case, res)
