"""C17 — manual edits through update_discretizer are applied coherently (E2 BFS over edit histories)."""
from __future__ import annotations

import json
import math
import pickle
import warnings

import numpy as np
import pandas as pd

from .. import space
from ..common import pmap
from ..ref.grouped_list import norm
from ..ref.transform import RefTransform, compare_partition
from . import c06, c16

PROP = "C17"
STR_NAN = "__NAN__"


def isnan(v):
    return v is None or (isinstance(v, float) and math.isnan(v))


# base objects: (name, kind, class, cells, nan cell, values, kwargs)
def bases(tier):
    out = []
    big = [(3, 1), (2, 2), (1, 3), (6, 2)]
    for od in ("float", "str"):
        for dropna in (True, False):
            out.append({"name": f"bin-QNT-{od}-{dropna}", "cls": "binary", "kind": "QNT", "cells": big, "nan": (2, 2), "od": od, "dropna": dropna})
            out.append({"name": f"bin-ORD-{od}-{dropna}", "cls": "binary", "kind": "ORD", "cells": big, "nan": (2, 2), "od": od, "dropna": dropna})
            out.append({"name": f"bin-CAT-{od}-{dropna}", "cls": "binary", "kind": "CAT", "cells": big, "nan": (1, 3), "od": od, "dropna": dropna})
        out.append({"name": f"bin-NUMCAT-{od}", "cls": "binary", "kind": "NUMCAT", "cells": big, "nan": None, "od": od, "dropna": True})
        out.append({"name": f"bin-QNT-nonan-{od}", "cls": "binary", "kind": "QNT", "cells": big, "nan": None, "od": od, "dropna": True})
        out.append({"name": f"cont-QNT-{od}", "cls": "continuous", "kind": "QNT", "cells": [(0, 0, 1), (1, 2), (0, 3), (2, 2, 3)], "nan": (1, 1, 1), "od": od, "dropna": True})
        out.append({"name": f"cont-CAT-{od}", "cls": "continuous", "kind": "CAT", "cells": [(0, 0, 1), (1, 2), (0, 3), (2, 2, 3)], "nan": None, "od": od, "dropna": True})
    for kind in ("QNT", "ORD", "CAT", "NUMCAT"):
        out.append({"name": f"disc-{kind}", "cls": "Discretizer", "kind": kind, "cells": big, "nan": (2, 2) if kind != "NUMCAT" else None, "od": "str", "dropna": True})
    if tier == "quick":
        out = [b for b in out if not (b["od"] == "str" and b["dropna"] is False and b["kind"] != "QNT")]
    return out


def fit_base(b, seed):
    if b["cls"] == "Discretizer":
        from . import disc_space

        case = {"cls": "Discretizer", "kind": b["kind"], "cells": [list(c) for c in b["cells"]], "nan": list(b["nan"]) if b["nan"] else None, "min_freq": 0.05, "target": "binary", "seed": seed, "companion": None}
        fit = disc_space.fit(case)
        return fit["obj"], fit["X"], fit["y"], fit["vals"]
    case = {
        "carver": b["cls"],
        "kind": b["kind"],
        "cells": [list(c) for c in b["cells"]],
        "nan": list(b["nan"]) if b["nan"] else None,
        "dev": None,
        "cfg": {"sort_by": "cramerv", "max_n_mod": 4, "min_freq": 0.05, "min_freq_mod": None, "output_dtype": b["od"], "dropna": b["dropna"]},
        "seed": seed,
    }
    fit = space.fit_carver(case)
    return fit["carver"], fit["X"], fit["y"], fit["vals"]


def canon(obj, f="f"):
    o = obj.values_orders[f]
    return (tuple(norm(k) for k in o), tuple((norm(k), tuple(sorted(norm(v) for v in m))) for k, m in sorted(o.content.items(), key=lambda kv: norm(kv[0]))), bool(obj.features_dropna.get(f)))


def enabled(obj, X, kind, f="f", hist_len=0):
    """valid edits in the current state"""
    order = obj.values_orders[f]
    leaders = [l for l in order if not space.is_nan_leader(l)]
    quant = f in obj.quantitative_features
    evs = []
    if quant:
        for a, b in zip(leaders, leaders[1:]):
            evs.append(["group", a, b])  # lower interval merged into the upper one (leader stays the largest boundary)
        train = sorted(v for v in X[f].tolist() if not isnan(v))
        for l in leaders:
            if not math.isfinite(l):
                continue
            nxt = [v for v in train if v > l]
            new = l + (min(nxt) - l) / 4 if nxt else l + 1.0
            if not order.contains(new):
                evs.append(["replace", l, new])
            # rounding a threshold DOWN (documented use): the rows between the new and the old threshold change group
            members = [m for m in order.content[l] if not space.is_nan_leader(m)]
            lower = [v for v in members if v < l] + [v for v in train if v < l]
            down = l - (l - max(lower)) / 4 if lower else l - 0.5
            if not order.contains(down) and down > (max([m for m in members if m < l], default=-math.inf)):
                evs.append(["replace", l, down])
    elif kind == "ORD":
        for a, b in zip(leaders, leaders[1:]):
            evs.append(["group", a, b])
            evs.append(["group", b, a])
        for l in leaders[:2]:
            evs.append(["replace", l, f"new{hist_len}"])
    else:
        if len(leaders) <= 4:
            for a in leaders:
                for b in leaders:
                    if a != b:
                        evs.append(["group", a, b])
        else:
            for a, b in zip(leaders, leaders[1:]):
                evs.append(["group", a, b])
                evs.append(["group", b, a])
        for l in leaders[:2]:
            evs.append(["replace", l, f"new{hist_len}"])
    # missing values into an existing group (when they are still a modality of their own, or not known yet)
    nan_group = order.get_group(STR_NAN) if order.contains(STR_NAN) else None
    if nan_group is None or space.is_nan_leader(nan_group):
        for l in leaders:
            evs.append(["group", "NaN", l])
        for spelling in ("NaN:None", "NaN:float32", "NaN:NA"):  # other spellings of a missing value
            if leaders:
                evs.append(["group", spelling, leaders[-1]])
    if not quant and kind not in ("ORD",) and nan_group is not None and space.is_nan_leader(nan_group) and leaders:
        # the missing-value modality renamed into an existing category (mode 'replace' with discarded_value=nan): the two
        # groups become one, led by the category
        evs.append(["replace", "NaN", leaders[0]])
    return evs


def apply_edit(obj, ev, f="f"):
    mode, a, b = ev
    a = {"NaN": np.nan, "NaN:None": None, "NaN:float32": np.float32("nan"), "NaN:NA": pd.NA}[a] if isinstance(a, str) and a.startswith("NaN") else a
    with warnings.catch_warnings():
        warnings.simplefilter("ignore")
        obj.update_discretizer(f, mode, a, b)


def blocks(obj, X, f="f"):
    out = obj.transform(X.copy())[f].tolist()
    part = {}
    for i, v in enumerate(out):
        part.setdefault("NaN" if isnan(v) else ("v", v), []).append(i)
    return out, sorted(part.values())


def rows_of_group(obj, X, leader, f="f"):
    """training rows belonging to the group of `leader` according to values_orders only"""
    ref = RefTransform(obj.values_orders[f], f in obj.quantitative_features, obj.str_nan)
    gi = None
    for i, l in enumerate(ref.leaders):
        if (isinstance(l, str) and isinstance(leader, str) and l == leader) or (not isinstance(l, str) and not isinstance(leader, str) and l == leader):
            gi = i
    return [i for i, v in enumerate(X[f].tolist()) if ref.group_of(v) == gi], gi


def check_transition(before_obj, after_obj, X, ev, viol, f="f"):
    mode, a, b = ev
    try:
        _, pb = blocks(before_obj, X)
        out_after, pa = blocks(after_obj, X)
    except Exception as exc:  # noqa
        viol.append({"kind": "transform-raises-after-edit", "what": f"{ev}: transform raised {type(exc).__name__}: {str(exc)[:100]}"})
        return
    if mode == "replace" and a == "NaN":
        leaders_after = list(after_obj.values_orders[f])
        if any(space.is_nan_leader(x) for x in leaders_after) or norm(b) not in [norm(x) for x in leaders_after]:
            viol.append({"kind": "replace-not-renamed", "what": f"{ev}: after 'replace' the group leaders are {leaders_after!r}"})
            return
    elif mode == "replace":
        leaders_after = [norm(x) for x in after_obj.values_orders[f]]
        if norm(b) not in leaders_after or norm(a) in leaders_after:
            viol.append({"kind": "replace-not-renamed", "what": f"{ev}: after 'replace' the group leaders are {list(after_obj.values_orders[f])!r}"})
        lowered = f in after_obj.quantitative_features and not isinstance(b, str) and b < a
        if pa != pb and not lowered:  # a lowered threshold legitimately moves the rows in between (judged by RefTransform)
            viol.append({"kind": "replace-changes-partition", "what": f"{ev}: 'replace' changed the grouping of rows"})
        return
    disc_leader = STR_NAN if isinstance(a, str) and a.startswith("NaN") else a
    rows_d, _ = rows_of_group(before_obj, X, disc_leader)
    rows_k, _ = rows_of_group(before_obj, X, b)
    expected = []
    merged = sorted(set(rows_d) | set(rows_k))
    for blk in pb:
        if set(blk) & set(merged):
            continue
        expected.append(blk)
    rest = [blk for blk in pb if set(blk) & set(merged)]
    flat = sorted(i for blk in rest for i in blk)
    if flat:
        expected.append(flat)
    if sorted(expected) != pa:
        viol.append({"kind": "group-wrong-partition", "what": f"{ev}: rows of the discarded group {rows_d[:6]} and of the kept group {rows_k[:6]} are not merged into one label, or other rows moved (before {pb}, after {pa})"})
        return
    if rows_d and rows_k:
        labs = {repr(out_after[i]) for i in rows_d} | {repr(out_after[i]) for i in rows_k}
        if len(labs) != 1:
            viol.append({"kind": "group-labels", "what": f"{ev}: discarded and kept groups do not share one label after the edit: {labs}"})


def check_state(obj, X, viol, f="f"):
    """C04 / C16 / C06 oracles re-applied in the reached state"""
    ref = RefTransform(obj.values_orders[f], f in obj.quantitative_features, obj.str_nan)
    try:
        out = obj.transform(X.copy())[f].tolist()
        v, _ = compare_partition(ref, X[f].tolist(), out, obj.output_dtype, obj.features_dropna.get(f, obj.dropna))
        for kind, what in v[:2]:
            viol.append({"kind": "c04-" + kind, "what": "after edits, transform disagrees with values_orders: " + what})
    except Exception as exc:  # noqa
        viol.append({"kind": "transform-raises", "what": f"transform raised {type(exc).__name__}: {str(exc)[:100]}"})
        return
    sv = []
    c16.check_summary(obj, X, sv)
    for s in sv[:2]:
        viol.append({"kind": "c16-" + s["kind"], "what": "after edits, " + s["what"]})
    try:
        from AutoCarver import load_carver

        obj2 = load_carver(json.loads(json.dumps(obj.to_json())))
        a, b = c06.outcome_of(obj, X, f), c06.outcome_of(obj2, X, f)
        if not c06.same_outcome(a, b):
            viol.append({"kind": "c06-roundtrip", "what": "after edits, the reloaded object transforms differently"})
    except Exception as exc:  # noqa
        viol.append({"kind": "c06-roundtrip-raises", "what": f"after edits, JSON round trip raised {type(exc).__name__}: {str(exc)[:100]}"})


_CTX = {}


def expand(node):
    bi, hist = node
    b = _CTX["bases"][bi]
    obj, X, y, vals = fit_base(b, _CTX["seed"])
    out = {"succ": [], "violations": [], "transitions": 0, "outcomes": []}
    if "f" not in obj.features:
        out["dropped"] = True
        return out
    try:
        for ev in hist:
            apply_edit(obj, ev)
    except Exception as exc:  # noqa
        raise RuntimeError(f"cannot replay {hist}: {exc}")
    blob = pickle.dumps(obj)
    if canon(pickle.loads(blob)) != canon(obj):
        raise RuntimeError("pickle round trip is not faithful")
    if not hist:
        sv = []
        check_state(obj, X, sv)
        for v in sv:
            out["violations"].append(dict(v, hist=[], what="initial state: " + v["what"]))
    for ev in enabled(obj, X, b["kind"], hist_len=len(hist)):
        out["transitions"] += 1
        o2 = pickle.loads(blob)
        viol = []
        try:
            # observers interleaved before the edit: anything they cache must be refreshed by update_discretizer
            o2.summary()
            o2.transform(X.copy())
            o2.to_json()
            apply_edit(o2, ev)
        except Exception as exc:  # noqa
            viol.append({"kind": f"edit-raises-{type(exc).__name__}", "what": f"update_discretizer{tuple(ev)} raised {type(exc).__name__}: {str(exc)[:100]} ({space.innermost_frame(exc)})"})
            out["violations"] += [dict(v, hist=hist + [ev]) for v in viol]
            out["outcomes"].append(f"{ev[0]}:raises")
            continue
        check_transition(pickle.loads(blob), o2, X, ev, viol)
        check_state(o2, X, viol)
        if viol:
            out["violations"] += [dict(v, hist=hist + [ev]) for v in viol[:3]]
            out["outcomes"].append(f"{ev[0]}:violation")
            continue
        out["outcomes"].append(f"{b['kind']}:{ev[0]}" + (":nan" if isinstance(ev[1], str) and ev[1].startswith("NaN") else ""))
        out["succ"].append((canon(o2), ev))
    return out


def replay(case):
    _CTX["bases"] = bases("thorough")
    _CTX["seed"] = case.get("seed", 0)
    names = [b["name"] for b in _CTX["bases"]]
    bi = names.index(case["base"])
    hist = case["hist"]
    res = expand((bi, hist[:-1]))
    v = [x for x in res["violations"] if x.get("hist") == hist]
    return {"outcome": "violation" if v else "ok", "violations": v}


def run(tier, seed, rep):
    B = bases(tier)
    _CTX["bases"], _CTX["seed"] = B, seed
    depth = 2 if tier == "quick" else 3
    rep.rule = (
        f"E2: BFS over update_discretizer histories (depth {depth}) from {len(B)} fitted base objects (Binary/ContinuousCarver and Discretizer on "
        "quantitative / ordinal / categorical / numeric-category features, with and without missing values, output_dtype x dropna); "
        "alphabet: mode 'group' on adjacent groups of ordered features (quantitative: lower interval into the upper one), any pair of "
        "categorical groups, missing values into any group; mode 'replace' with a new name / a new boundary below the next observed "
        "value; states deduplicated on the canonical values_orders; after every edit: expected row partition (discarded merged into "
        "kept, nothing else moves; replace keeps the partition), then the C04 (RefTransform), C16 (summary) and C06 (JSON round trip) "
        "oracles in the new state. non-trivial = distinct edited states"
    )
    rep.assumptions = [
        "for quantitative features a valid 'group' edit merges an interval into its upper neighbour (the leader must remain the largest boundary)",
        "successor states are produced from a pickle of the replayed object (fidelity asserted per node)",
    ]
    seen = set()
    frontier = [(bi, []) for bi in range(len(B))]
    for level in range(depth + 1):
        if not frontier:
            break
        results = list(pmap(expand, frontier))
        nxt = []
        for (bi, hist), res in zip(frontier, results):
            if "__harness_error__" in res:
                rep.record({"base": B[bi]["name"], "hist": hist}, res)
            if res.get("dropped"):
                rep.outcomes["base-dropped"] += 1
                continue
            rep.transitions += res["transitions"]
            rep.validated += res["transitions"]
            for o in res["outcomes"]:
                rep.outcomes[o] += 1
            for v in res["violations"]:
                rep.violation({"base": B[bi]["name"], "hist": v.pop("hist"), "seed": seed}, v)
            for c, ev in res["succ"]:
                key = (bi, c)
                if key in seen:
                    continue
                seen.add(key)
                rep.nontrivial.add(repr(key))
                if level < depth:
                    nxt.append((bi, hist + [ev]))
                if len(rep.samples) < 4 and len(hist) >= 1:
                    rep.sample({"base": B[bi]["name"], "history": hist + [ev]})
        frontier = nxt if level < depth - 1 else []
        if level >= depth - 1:
            break
    rep.states = len(seen) + len(B)
    rep.evaluations = rep.transitions
    rep.extra["depth_completed"] = depth
