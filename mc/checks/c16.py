"""C16 — summary() and history() truthfully describe the fitted object (E1, carving + column spaces)."""
from __future__ import annotations

import math

import numpy as np
import pandas as pd

from .. import space
from ..common import pmap
from ..ref import carver as refcarver
from . import c01, c04, carving_space, disc_space

PROP = "C16"
TOL = 1e-9


def isnan(v):
    return isinstance(v, float) and math.isnan(v)


def one_row(X, f, value, qualitative):
    data = {}
    for c in X.columns:
        if c == f:
            data[c] = pd.Series([value], dtype=object if qualitative else float)
        else:
            data[c] = pd.Series([X[c].iloc[0]], dtype=X[c].dtype)
    return pd.DataFrame(data)


def check_summary(obj, X, viol):
    n_rows = 0
    try:
        summ = obj.summary()
    except Exception as exc:  # noqa
        viol.append({"kind": "summary-raises", "what": f"summary() raised {type(exc).__name__}: {str(exc)[:100]}"})
        return 0
    feats = set(summ.index.get_level_values("feature"))
    if feats != set(obj.features):
        viol.append({"kind": "summary-features", "what": f"summary() lists {sorted(feats)} but kept features are {sorted(obj.features)}"})
    for f in obj.features:
        if f not in feats:
            continue
        try:
            sf = obj.summary(f)
            if set(sf.index.get_level_values("feature")) != {f}:
                viol.append({"kind": "summary-f", "what": f"summary({f!r}) holds rows of other features"})
        except Exception as exc:  # noqa
            viol.append({"kind": "summary-f-raises", "what": f"summary({f!r}) raised {type(exc).__name__}: {str(exc)[:100]}"})
            continue
        rows = summ[summ.index.get_level_values("feature") == f]
        labels = rows["label"].tolist()
        contents = rows["content"].tolist()
        n_rows += len(labels)
        order = obj.values_orders[f]
        dropna = obj.features_dropna.get(f, obj.dropna)
        raw = next((r for r, lst in obj.features_casting.items() if f in lst), f)
        if len(set(map(repr, labels))) != len(labels):
            viol.append({"kind": "summary-dup-label", "what": f"{f}: a label appears in two summary rows: {labels!r}"})
        if f in obj.qualitative_features:
            known = [v for v in order.values() if isinstance(v, str) and v != obj.str_default and not (v == obj.str_nan and not dropna)]
            listed = [v for c in contents for v in c]
            if sorted(listed, key=repr) != sorted(known, key=repr):
                viol.append({"kind": "summary-partition", "what": f"{f}: summary contents {sorted(listed, key=repr)!r} do not partition the known values {sorted(known, key=repr)!r}"})
            for lab, content in zip(labels, contents):
                for v in content:
                    val = np.nan if v == obj.str_nan else v
                    try:
                        out = obj.transform(one_row(X, raw, val, True))[f].iloc[0]
                    except Exception as exc:  # noqa
                        viol.append({"kind": "summary-value-rejected", "what": f"{f}: value {v!r} listed by summary is rejected by transform: {type(exc).__name__}"})
                        continue
                    if not (out == lab or (isnan(out) and isnan(lab))):
                        viol.append({"kind": "summary-label", "what": f"{f}: summary says {v!r} -> {lab!r} but transform outputs {out!r}"})
        else:
            leaders = list(order)
            for lab, content in zip(labels, contents):
                descr = [c for c in content if c != obj.str_nan]
                if len(descr) > 1:
                    viol.append({"kind": "summary-quant-content", "what": f"{f}: the row of label {lab!r} describes one fitted group by several intervals {descr!r}"})
            if len(labels) != len(leaders):
                viol.append({"kind": "summary-quant-rows", "what": f"{f}: {len(labels)} summary rows for {len(leaders)} fitted groups ({leaders!r})"})
            # labels reachable by transform: one probe per group + missing value
            reach = {}
            for l in leaders:
                if isinstance(l, str):
                    continue
                probe = l if math.isfinite(l) else 1e300
                out = obj.transform(one_row(X, raw, probe, False))[f].iloc[0]
                reach[lkey(out)] = l
            if order.contains(obj.str_nan):
                try:
                    out = obj.transform(one_row(X, raw, np.nan, False))[f].iloc[0]
                    nan_rows = [lab for lab, c in zip(labels, contents) if obj.str_nan in c]
                    if len(nan_rows) != 1:
                        viol.append({"kind": "summary-nan-row", "what": f"{f}: missing values are shown in {len(nan_rows)} summary rows"})
                    elif dropna and not (nan_rows[0] == out):
                        viol.append({"kind": "summary-nan-label", "what": f"{f}: summary shows missing values under {nan_rows[0]!r} but transform outputs {out!r}"})
                    if dropna:
                        reach[lkey(out)] = "nan"
                    elif len(nan_rows) == 1:
                        reach[lkey(nan_rows[0])] = "nan"
                except Exception as exc:  # noqa
                    viol.append({"kind": "summary-nan-raises", "what": f"{f}: transform of a missing value raised {type(exc).__name__}"})
            if set(reach) != {lkey(l) for l in labels}:
                viol.append({"kind": "summary-quant-labels", "what": f"{f}: summary labels {sorted(map(repr, labels))} != labels output by transform {sorted(reach)}"})
    return n_rows


def lkey(v):
    try:
        return ("n", float(v))
    except (TypeError, ValueError):
        return ("s", str(v))


def parse_combo(combo, base_order, label_index=None):
    """history combination (groups of raw values; for quantitative features groups of interval labels, which are
    resolved through the raw-distribution row `label_index`) -> (groups of base indices, nan_pos)"""
    base_leaders = [l for l in base_order if not space.is_nan_leader(l)]
    groups, nan_pos = [], None
    if label_index is not None:
        for grp in combo:
            has_nan = any(space.is_nan_leader(v) for v in grp)
            idx = sorted(label_index[v] for v in grp if not space.is_nan_leader(v) and v in label_index)
            if has_nan:
                nan_pos = "alone" if not idx else len(groups)
            if idx:
                groups.append(tuple(idx))
        return tuple(groups), nan_pos
    for grp in combo:
        has_nan = any(space.is_nan_leader(v) for v in grp)
        vals = [v for v in grp if not space.is_nan_leader(v)]
        idx = []
        for b, bl in enumerate(base_leaders):
            bm = [m for m in base_order.content[bl] if not space.is_nan_leader(m)]
            if bm and all(any(x == v for v in vals) for x in bm):
                idx.append(b)
        if has_nan:
            nan_pos = "alone" if not idx else len(groups)
        if idx:
            groups.append(tuple(idx))
    return tuple(groups), nan_pos


def close(a, b):
    if a is None or b is None:
        return False
    return abs(a - b) <= TOL * max(1.0, abs(a), abs(b))


def check_history(case, obs, viol):
    carver = obs["fit"]["carver"]
    try:
        h_all = carver.history()
        h = carver.history("f")
    except Exception as exc:  # noqa
        viol.append({"kind": "history-raises", "what": f"history() raised {type(exc).__name__}: {str(exc)[:100]}"})
        return 0
    if "feature" in h_all.columns and set(h_all["feature"]) - ({"f", "g"} if case.get("companion") else {"f"}):
        viol.append({"kind": "history-features", "what": f"history() holds features {set(h_all['feature'])}"})
    cfg = c01.resolved_cfg(case)
    sort_by = cfg["sort_by"]
    rows = h.to_dict(orient="records")
    rows = [r for r in rows if not (isinstance(r.get("removed"), bool) and r.get("removed"))]
    if not rows:
        viol.append({"kind": "history-empty", "what": "history('f') is empty for a kept feature"})
        return 0
    if rows[0].get("viability") is not None and not isnan(rows[0].get("viability")):
        viol.append({"kind": "history-raw", "what": f"first history row is not the raw distribution: {rows[0].get('viability_message')!r}"})
    base, base_order = obs["base"], obs["base_order"]
    label_index = None
    if case["kind"] == "QNT":
        # quantitative: history speaks in interval labels; the raw row lists them in base order
        flat = [g[0] for g in rows[0]["combination"] if len(g) == 1 and not space.is_nan_leader(g[0])]
        if len(flat) != len(base) or len(set(flat)) != len(flat):
            viol.append({"kind": "history-raw", "what": f"raw distribution row lists {rows[0]['combination']!r}, expected one distinct label per base modality ({len(base)})"})
            return 0
        label_index = {lab: i for i, lab in enumerate(flat)}
    raw_groups, _ = parse_combo(rows[0]["combination"], base_order, label_index)
    if raw_groups != tuple((i,) for i in range(len(base))):
        viol.append({"kind": "history-raw", "what": f"raw distribution row lists {rows[0]['combination']!r}, expected one group per base modality"})
    tested = rows[1:]
    s1_rows = [r for r in tested if not r["grouping_nan"]]
    s2_rows = [r for r in tested if r["grouping_nan"]]
    # stage 1: every candidate present with the right measure
    s1 = refcarver.stage1(base, obs["dev_base"], cfg)

    def index_rows(rws):
        d = {}
        for r in rws:
            d.setdefault(parse_combo(r["combination"], base_order, label_index), []).append(r)
        return d

    def compare(stage, rws, what):
        d = index_rows(rws)
        for cand in stage.cands:
            key = (tuple(tuple(g) for g in cand.key[0]), cand.key[1])
            got = d.get(key)
            if not got:
                viol.append({"kind": f"history-missing-{what}", "what": f"candidate {key} of the {what} search is not in history()"})
                return
            if len(got) > 1:
                viol.append({"kind": f"history-dup-{what}", "what": f"candidate {key} appears {len(got)} times in history()"})
                return
            m = got[0][sort_by]
            if all(x is None for x in cand.meas):
                continue
            if not any(close(m, x) for x in cand.meas):
                viol.append({"kind": f"history-measure-{what}", "what": f"history gives {sort_by}={m!r} for {key}, recomputation gives {cand.meas}"})
                return
        if len(d) != len(stage.cands):
            viol.append({"kind": f"history-extra-{what}", "what": f"history holds {len(d)} distinct {what} combinations, the search space has {len(stage.cands)}"})

    compare(s1, s1_rows, "stage-1")
    viable1 = [r for r in s1_rows if r["viability"] is True]
    observed = obs["observed"]
    final = None
    two_stage = obs["nan"] is not None and cfg["dropna"] and viable1
    if two_stage:
        g1, _ = parse_combo(viable1[-1]["combination"], base_order, label_index)
        s2 = refcarver.stage2([list(g) for g in g1], base, obs["nan"], obs["dev_base"], obs["dev_nan"], cfg)
        compare(s2, s2_rows, "stage-2")
        viable2 = [r for r in s2_rows if r["viability"] is True]
        if viable2:
            final = parse_combo(viable2[-1]["combination"], base_order, label_index)
    elif viable1:
        g, npos = parse_combo(viable1[-1]["combination"], base_order, label_index)
        final = (g, "alone" if obs["nan"] is not None else None)
    all_viable = [r for r in tested if r["viability"] is True]
    if observed is not None:
        og = (tuple(tuple(g) for g in observed[0]), observed[1])
        if final is None or final != og:
            viol.append({"kind": "history-last-viable", "what": f"last combination flagged viable is {final}, fitted grouping is {og}"})
    elif all_viable and (not two_stage or [r for r in s2_rows if r["viability"] is True]):
        viol.append({"kind": "history-viable-but-dropped", "what": "history flags a viable combination but the feature was dropped"})
    return len(tested)


def run_case(case):
    res = {"violations": [], "sample": dict(case)}
    viol = res["violations"]
    if case["type"] == "disc":
        fit, obj = c04.fitted_object(case)
        if obj is None or not obj.features:
            res["outcome"] = "disc:nofit"
            return res
        n = check_summary(obj, fit["X"], viol)
        res["outcome"] = f"disc:{case['cls']}:{case['kind']}"
        if n >= 2:
            res["nontrivial"] = repr(sorted(case.items(), key=str))
        return res
    obs = c01.observe(case)
    fit = obs["fit"]
    if fit["status"] != "ok":
        res["outcome"] = "fit-" + fit["status"]
        return res
    carver = fit["carver"]
    # history() is a pure observer: calling it (for all features, repeatedly) never changes what it reports
    try:
        snap = {f: len(carver.history(f)) for f in list(carver._history)}  # noqa
        n1 = len(carver.history())
        n2 = len(carver.history())
        snap2 = {f: len(carver.history(f)) for f in list(carver._history)}  # noqa
        if n1 != n2 or snap != snap2:
            viol.append({"kind": "history-not-pure", "what": f"history() changes what history reports: all-features rows {n1} -> {n2}, per feature {snap} -> {snap2}"})
    except Exception as exc:  # noqa
        viol.append({"kind": "history-raises", "what": f"history() raised {type(exc).__name__}: {str(exc)[:100]}"})
    if "base" not in obs or obs["problems"]:
        res["outcome"] = "no-base"
        return res
    n = 0
    if carver.features:
        n = check_summary(carver, fit["X"], viol)
    if "f" in carver.features:
        tested = check_history(case, obs, viol)
        # summary() again after one manual edit on the same (already summarised) object
        if not viol and case["carver"] != "multiclass":
            from . import c17

            allevs = c17.enabled(carver, fit["X"], case["kind"])
            # the missing-value modality renamed into a category ('replace' with nan) when that edit is available, else a 'group' edit
            evs = [e for e in allevs if e[0] == "replace" and e[1] == "NaN"] or [e for e in allevs if e[0] == "group"]
            if evs:
                try:
                    c17.apply_edit(carver, evs[0])
                    sv = []
                    check_summary(carver, fit["X"], sv)
                    for v in sv[:2]:
                        viol.append({"kind": "after-edit:" + v["kind"], "what": f"after update_discretizer{tuple(evs[0])} (summary() called before): " + v["what"]})
                except Exception as exc:  # noqa  (the edit itself is C17's business)
                    pass
        res["outcome"] = f"carver:{case['kind']}:kept:{'2stage' if case.get('nan') and case['cfg'].get('dropna', True) else '1stage'}"
        if tested >= 2:
            res["nontrivial"] = c01.space_key(case)
    else:
        res["outcome"] = f"carver:{case['kind']}:dropped"
        try:
            h = carver.history()
        except Exception as exc:  # noqa
            viol.append({"kind": "history-raises", "what": f"history() raised {type(exc).__name__} after a feature was dropped"})
    return res


def replay(case):
    return run_case(case)


def run(tier, seed, rep):
    cases, transitions = [], 0
    for carver in ("binary", "continuous"):
        cs, tr = carving_space.enumerate_cases(carver, tier, seed)
        if tier == "quick":
            cs = [c for c in cs if (len(c["cells"]) <= 2) or (len(c["cells"]) == 3 and c["cfg"]["output_dtype"] == "float" and c["cfg"]["min_freq"] == 0.1 and (c["dev"] is None or c["dev"]["name"] in ("same", "swap01")))]
        else:  # thorough: every table up to k=3 (the k=4,5 tables of the carving space are left to C01/C02)
            cs = [c for c in cs if len(c["cells"]) <= 3]
        for c in cs:
            c["type"] = "carver"
        cases += cs
        transitions += tr
    # two features fitted together (history / summary are per feature)
    for carver in ("binary", "continuous"):
        for kind in ("ORD", "QNT", "CAT"):
            tabs, tr = carving_space.tables(carver, kind, tier, kmax=3)
            for cells in tabs[:: 4 if tier == "quick" else 1]:
                cfg = {"sort_by": "tschuprowt", "max_n_mod": 3, "min_freq": 0.1, "min_freq_mod": None, "output_dtype": "float", "dropna": True}
                cases.append({"type": "carver", "carver": carver, "kind": kind, "cells": [list(x) for x in cells], "nan": None, "dev": None, "cfg": cfg, "seed": seed, "companion": "q2"})
    dcases, tr = disc_space.enumerate_cases(tier, seed, "discretizers")
    transitions += tr
    for c in dcases:
        if c["cls"] in ("Discretizer", "QuantitativeDiscretizer", "QualitativeDiscretizer") and c["target"] == "binary" and c["min_freq"] in (0.1, 0.34):
            if tier == "quick" and len(c["cells"]) > 2:
                continue
            cases.append(dict(c, type="disc"))
    rep.rule = (
        "E1: carving space of C01 (summary + history) and Discretizer family of the column space (summary); summary: features, "
        "per-feature rows, qualitative contents partition the known values and every listed value is transformed (one-row frames) "
        "to the listed label, quantitative: one row per group, labels = labels output by transform on one probe per group, missing "
        "values in the row of their group; history: raw row first, every candidate of RefCarver's two searches present exactly once "
        "with a measure equal to recomputation (either chi2 convention), last viable row = fitted grouping. non-trivial = >= 2 "
        "tested combinations / summary rows"
    )
    rep.assumptions = ["history rows flagged removed are ignored", "stage-2 candidates are derived from the stage-1 row that history flags viable"]
    rep.transitions = transitions
    for case, res in zip(cases, pmap(run_case, cases)):
        res["transitions"] = 0
        rep.record(case, res)
