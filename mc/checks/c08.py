"""C08 — fit ends in a coherent fitted object or a clean AssertionError (E1 over the column space)."""
from __future__ import annotations

import numpy as np
import pandas as pd

from .. import space
from ..common import pmap
from ..ref.grouped_list import norm
from . import disc_space

PROP = "C08"


def isnan(v):
    return isinstance(v, float) and np.isnan(v)


def wellformed_order(order):
    errs = []
    leaders = list(order)
    if len(set(map(norm, leaders))) != len(leaders):
        errs.append(f"duplicate leaders {leaders!r}")
    if sorted(map(norm, leaders)) != sorted(map(norm, order.content.keys())):
        errs.append(f"leaders {leaders!r} are not the keys of content {list(order.content)!r}")
    allv = [v for m in order.content.values() for v in m]
    if len(set(map(norm, allv))) != len(allv):
        errs.append(f"groups are not disjoint: {dict(order.content)!r}")
    for k, m in order.content.items():
        if not any(norm(k) == norm(e) for e in m):
            errs.append(f"leader {k!r} not in its own group {m!r}")
    return errs


def kept_history_features(obj):
    h = getattr(obj, "_history", None)
    if h is None:
        return None
    kept, removed = [], []
    for f, rows in h.items():
        if rows and isinstance(rows[-1], dict) and rows[-1].get("removed"):
            removed.append(f)
        else:
            kept.append(f)
    return kept, removed


def check_coherence(obj, X, y, requested):
    """well-formedness of a fitted object. returns list of (kind, what)"""
    errs = []
    feats = list(obj.features)
    if len(set(feats)) != len(feats):
        errs.append(("dup-features", f"features has duplicates: {feats}"))
    fs = set(feats)
    multiclass = type(obj).__name__ == "MulticlassCarver"
    for name in ("values_orders", "input_dtypes", "labels_per_values", "features_dropna"):
        keys = set(getattr(obj, name).keys())
        if keys != fs:
            errs.append((f"attr-{name}", f"{name} refers to {sorted(keys)} but kept features are {sorted(fs)}"))
    part = set(obj.quantitative_features) | set(obj.qualitative_features)
    if part != fs:
        errs.append(("attr-type-lists", f"quantitative+qualitative features {sorted(part)} != features {sorted(fs)}"))
    if hasattr(obj, "ordinal_features") and not multiclass and not set(obj.ordinal_features) <= fs:
        errs.append(("attr-ordinal", f"ordinal_features {obj.ordinal_features} not within features {sorted(fs)}"))
    cast = [c for lst in obj.features_casting.values() for c in lst]
    if set(cast) != fs:
        errs.append(("attr-casting", f"features_casting refers to {sorted(cast)} but kept features are {sorted(fs)}"))
    stale = sorted(r for r, lst in obj.features_casting.items() if not lst)
    if stale and not multiclass:  # (MulticlassCarver keeps the raw column as key even when no per-class copy survives)
        errs.append(("attr-casting-stale", f"features_casting keeps an (empty) entry for {stale}, none of whose features is kept"))
    # values_orders well-formed and covering
    for f in feats:
        if f not in obj.values_orders:
            continue
        order = obj.values_orders[f]
        for e in wellformed_order(order):
            errs.append(("malformed-order", f"values_orders[{f!r}]: {e}"))
        raw = next((r for r, lst in obj.features_casting.items() if f in lst), f)
        if raw not in X:
            continue
        col = X[raw]
        if f in obj.quantitative_features:
            fin = [v for v in col.tolist() if not isnan(v)]
            leaders = [l for l in order if not (isinstance(l, str))]
            if fin and (not leaders or max(leaders) < max(fin)):
                errs.append(("not-covering", f"values_orders[{f!r}] leaders {list(order)!r} do not cover training max {max(fin)}"))
        else:
            for v in pd.unique(col):
                if isnan(v) or v is None:
                    continue
                if not (order.contains(v) or order.contains(space.str_form(v))):
                    errs.append(("not-covering", f"training value {v!r} of {f!r} is in no group of values_orders"))
        if col.isna().any() and not order.contains(obj.str_nan):
            errs.append(("nan-not-covered", f"training column {raw!r} has missing values but values_orders[{f!r}] has no missing-value modality"))
    # summary
    if feats:
        try:
            summ = obj.summary()
            sf = set(summ.index.get_level_values("feature"))
            if sf != fs:
                errs.append(("summary-features", f"summary() lists {sorted(sf)} but kept features are {sorted(fs)}"))
        except Exception as exc:  # noqa
            errs.append(("summary-raises", f"summary() raised {type(exc).__name__}: {str(exc)[:80]} ({space.innermost_frame(exc)})"))
    # history
    kh = kept_history_features(obj)
    if kh is not None:
        kept, _removed = kh
        if set(kept) != fs:
            errs.append(("history-features", f"history holds un-removed entries for {sorted(kept)} but kept features are {sorted(fs)}"))
        try:
            obj.history()
        except Exception as exc:  # noqa
            errs.append(("history-raises", f"history() raised {type(exc).__name__}: {str(exc)[:80]}"))
    # transform: dropped features untouched, kept features transformed without error
    try:
        Xc = X.copy()
        out = obj.transform(Xc)
        for f in requested:
            if f in fs or multiclass:
                continue
            a, b = out[f].tolist(), X[f].tolist()
            same = all((isnan(u) and isnan(v)) or u == v for u, v in zip(a, b))
            if not same:
                errs.append(("dropped-feature-touched", f"dropped feature {f!r} is modified by transform"))
        if list(out.index) != list(X.index):
            errs.append(("transform-index", "transform changed the index"))
        # a dropped feature is no longer an input of the fitted object: a frame without its column is transformed alike
        for f in requested:
            if f in fs or multiclass or f not in X:
                continue
            try:
                out2 = obj.transform(X.drop(columns=[f]))
                for g in feats:
                    a, b = out2[g].tolist(), out[g].tolist()
                    if not all((isnan(u) and isnan(v)) or u == v for u, v in zip(a, b)):
                        errs.append(("dropped-feature-needed", f"without the column of the dropped feature {f!r}, {g!r} is transformed differently"))
            except Exception as exc:  # noqa
                errs.append(("dropped-feature-needed", f"transform of a frame without the column of the dropped feature {f!r} raised {type(exc).__name__}: {str(exc)[:100]}"))
    except Exception as exc:  # noqa
        errs.append(("transform-raises", f"transform(X_train) raised {type(exc).__name__}: {str(exc)[:100]} ({space.innermost_frame(exc)})"))
    return errs


def run_case(case):
    fit = disc_space.fit(case)
    res = {"violations": [], "sample": dict(case)}
    st = fit["status"]
    if st in ("assert", "init-assert"):
        res["outcome"] = f"{case['cls']}:AssertionError"
        res["nontrivial"] = None
        return res
    if st == "internal":
        res["outcome"] = f"{case['cls']}:internal:{fit['exc_type']}"
        res["violations"].append(
            {"kind": f"internal-{fit['exc_type']}@{fit['frame']}", "what": f"fit raised {fit['message']} at {fit['frame']} (neither completes nor AssertionError)", "finding": None}
        )
        return res
    obj = fit["obj"]
    comp = fit["comp"]
    requested = ["f"] + ([c[0] for c in comp] if isinstance(comp, list) else ([comp[0]] if comp else []))
    errs = check_coherence(obj, fit["X"], fit["y"], requested)
    dropped = [f for f in requested if f not in obj.features] if case["cls"] != "MulticlassCarver" else []
    res["outcome"] = f"{case['cls']}:ok" + (":dropped" if dropped else "")
    shape = degenerate_shape(case)
    if dropped or shape:
        res["nontrivial"] = repr(sorted(case.items(), key=str))
    for kind, what in errs:
        res["violations"].append({"kind": kind, "what": what, "finding": None})
    res["sample"]["features"] = list(obj.features)
    return res


def degenerate_shape(case):
    cells = case["cells"]
    n = sum(map(sum, cells))
    if len(cells) <= 1:
        return "constant-or-empty"
    if all(sum(c) <= 1 for c in cells):
        return "all-distinct"
    if any(c[0] == 0 or c[1] == 0 for c in cells):
        return "pure-cell"
    if case.get("nan"):
        return "with-nan"
    return None


def replay(case):
    return run_case(case)


def run(tier, seed, rep):
    cases, transitions = disc_space.enumerate_cases(tier, seed, "discretizers", custom_sentinels=True)
    if tier == "quick":  # the k>=4 ordered tables of the quick column space serve C09; here they only cost time
        cases = [c for c in cases if len(c["cells"]) <= 3 or c["cls"] == "ContinuousDiscretizer"]
    c2, t2 = disc_space.enumerate_cases(tier, seed, "carvers", custom_sentinels=True)
    cases += c2
    transitions += t2
    rep.rule = (
        "E1: BFS over append_cell construction of columns over the cell alphabet SIGMA_D (sizes 1..5, pure cells, never-observed "
        "ordinal values, missing-value cells, all-missing columns), k<=3 (quick) / <=4 (thorough), deep count-only columns for "
        "ContinuousDiscretizer (k<=5/6), x every discretizer class applicable to the kind and the three carvers x min_freq grid x "
        "target type x companion feature (constant / all-missing / id-like / regular). Oracle: outcome in {completes, AssertionError}; "
        "after completion the well-formedness invariant over features / values_orders / input_dtypes / labels / features_dropna / "
        "casting / summary() / history() / transform. non-trivial = a feature is dropped or the column is degenerate "
        "(constant, all distinct, pure cell, with missing values)"
    )
    rep.assumptions = [
        "history entries of a dropped feature are coherent when their last row carries the removed marker",
        "MulticlassCarver's per-class columns are checked through features_casting",
    ]
    rep.transitions = transitions
    for case, res in zip(cases, pmap(run_case, cases)):
        res["transitions"] = 0
        rep.record(case, res)
