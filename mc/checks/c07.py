"""C07 — fit/transform coherence, row-wise purity and absence of side effects (E2 over transform histories)."""
from __future__ import annotations

import itertools
import math
import pickle

import numpy as np
import pandas as pd

from .. import space
from ..common import pmap

PROP = "C07"
CLASSES = ["BinaryCarver", "ContinuousCarver", "MulticlassCarver", "Discretizer", "QualitativeDiscretizer", "QuantitativeDiscretizer"]
N = 10


def isnan(v):
    return v is None or (isinstance(v, float) and math.isnan(v))


def frame_A(seed):
    a, b = space.scale_for(seed)
    names = space.names_for(seed, 3)
    q = [a * v + b for v in [1, 1, 1, 2, 2, 2, 3, 3, 3]] + [np.nan]
    c = [names[0]] * 3 + [names[1]] * 3 + [names[2]] * 3 + [np.nan]
    o = ["lo"] * 3 + ["mid"] * 3 + ["hi"] * 4
    n = [1, 1, 1, 2.0, 2.0, 2.0, 3, 3, 3, 3]
    X = pd.DataFrame(
        {
            "q": pd.Series(q, dtype=float),
            "c": pd.Series(c, dtype=object),
            "o": pd.Series(o, dtype=object),
            "n": pd.Series(n, dtype=object),
            "other": pd.Series(list(range(100, 100 + N))),
            "txt": pd.Series([f"t{i}" for i in range(N)], dtype=object),
            # declared as a qualitative feature, dropped by every fit (each value is rarer than min_freq): from then on a
            # non-feature column, missing values included
            "ident": pd.Series([f"u{i}" if i not in (2, 7) else np.nan for i in range(N)], dtype=object),
        }
    )
    return X


def frame_B(seed):
    X = frame_A(seed)
    B = X.iloc[[9, 0, 0, 4, 8, 8, 3]].reset_index(drop=True)
    return B


def target(cls):
    if cls == "ContinuousCarver":
        return pd.Series([0.0, 0.5, 1.0, 1.0, 2.0, 2.5, 3.0, 3.5, 4.0, 2.0])
    if cls == "MulticlassCarver":
        return pd.Series(["x", "x", "y", "x", "y", "z", "y", "z", "z", "y"])
    return pd.Series([0, 0, 1, 0, 1, 1, 1, 1, 0, 1])


def make(cls, cfg):
    from AutoCarver import BinaryCarver, ContinuousCarver, MulticlassCarver
    from AutoCarver.discretizers import Discretizer, QualitativeDiscretizer, QuantitativeDiscretizer

    vo = {"o": ["lo", "mid", "hi"]}
    if cls.endswith("Carver"):
        kw = dict(min_freq=0.2, quantitative_features=["q"], qualitative_features=["c", "n", "ident"], ordinal_features=["o"], values_orders=vo, max_n_mod=3, copy=True, dropna=cfg["dropna"], output_dtype=cfg["output_dtype"])
        if cls != "ContinuousCarver":
            kw["sort_by"] = "cramerv"
        return {"BinaryCarver": BinaryCarver, "ContinuousCarver": ContinuousCarver, "MulticlassCarver": MulticlassCarver}[cls](**kw)
    if cls == "Discretizer":
        return Discretizer(quantitative_features=["q"], qualitative_features=["c", "n", "ident"], min_freq=0.2, ordinal_features=["o"], values_orders=vo, copy=True)
    if cls == "QualitativeDiscretizer":
        return QualitativeDiscretizer(qualitative_features=["c", "n", "ident"], min_freq=0.2, ordinal_features=["o"], values_orders=vo, copy=True)
    return QuantitativeDiscretizer(quantitative_features=["q"], min_freq=0.2, copy=True)


def frame_equal(a, b):
    if list(a.columns) != list(b.columns) or list(a.index) != list(b.index):
        return False
    for c in a.columns:
        if str(a[c].dtype) != str(b[c].dtype):
            return False
        for u, v in zip(a[c].tolist(), b[c].tolist()):
            if isnan(u) or isnan(v):
                if not (isnan(u) and isnan(v)):
                    return False
            elif u != v or type(u) is not type(v):
                return False
    return True


def series_equal(a, b):
    return list(a.index) == list(b.index) and str(a.dtype) == str(b.dtype) and all((isnan(u) and isnan(v)) or u == v for u, v in zip(a.tolist(), b.tolist()))


def events(tier):
    evs = []
    for mask in range(1, 2**N):
        evs.append(["subset", mask])
    for p in itertools.permutations(range(5)):
        evs.append(["perm", list(p)])
    for how in ("offset", "shuffled", "strings", "reversed-rows"):
        evs.append(["reindex", how])
    evs += [["frameB"], ["full"], ["empty"], ["summary"], ["to_json"]]
    return evs


def make_frame(ev, A, B):
    k = ev[0]
    if k == "subset":
        rows = [i for i in range(N) if ev[1] >> i & 1]
        return A.iloc[rows], rows
    if k == "perm":
        rows = list(ev[1]) + list(range(5, N))
        return A.iloc[rows], rows
    if k == "reindex":
        F = A.copy()
        rows = list(range(N))
        if ev[1] == "offset":
            F.index = [i + 1000 for i in range(N)]
        elif ev[1] == "shuffled":
            F.index = [7, 3, 9, 1, 0, 8, 2, 6, 4, 5]
        elif ev[1] == "strings":
            F.index = [f"r{i}" for i in range(N)]
        else:
            F = A.iloc[::-1]
            rows = rows[::-1]
        return F, rows
    if k == "full":
        return A, list(range(N))
    if k == "empty":
        return A.iloc[[]], []
    return None, None


def state_of(obj):
    d = dict(obj.__dict__)
    d.pop("_history", None)  # history() annotates its rows in place; the property speaks about transform
    return pickle.dumps(d)


def out_rows(out, feats):
    return [tuple("nan" if isnan(v) else v for v in row) for row in zip(*[out[f].tolist() for f in feats])]


def run_newrows(case):
    """row-wise purity on frames of values NOT all seen at fit: two categorical features sharing their vocabulary, both with a
    default group; every 2-row frame over the 25 row types must give, row by row, what each row gives alone"""
    from AutoCarver import BinaryCarver
    from AutoCarver.discretizers import Discretizer, QualitativeDiscretizer

    n = 24
    X = pd.DataFrame(
        {
            "home": pd.Series(["A"] * 9 + ["B"] * 9 + ["C"] * 4 + ["r1", "r2"], dtype=object),
            "work": pd.Series((["D", "A", "B"] * 8)[:22] + ["w1", "w2"], dtype=object),
            "q": pd.Series([float(i % 4) for i in range(n)], dtype=float),
        }
    )
    y = pd.Series([0, 0, 0, 1, 0, 0, 1, 1, 0, 1, 1, 1] * 2)
    cls = case["cls"]
    if cls == "Discretizer":
        obj = Discretizer(["q"], ["home", "work"], 0.1, copy=True)
    elif cls == "QualitativeDiscretizer":
        obj = QualitativeDiscretizer(["home", "work"], 0.1, copy=True)
    else:
        obj = BinaryCarver(sort_by="cramerv", min_freq=0.1, quantitative_features=["q"], qualitative_features=["home", "work"], max_n_mod=4, copy=True, output_dtype=case["cfg"]["output_dtype"])
    obj.fit(X, y)
    res = {"violations": [], "sample": dict(case), "evaluations": 0}
    feats = [f for f in ("home", "work") if f in obj.features]
    vals = ["A", "B", "D", "zz", "r1"]
    rows = [(h, w) for h in vals for w in vals]

    def tr(rs):
        fr = pd.DataFrame({"home": pd.Series([r[0] for r in rs], dtype=object), "work": pd.Series([r[1] for r in rs], dtype=object), "q": pd.Series([1.0] * len(rs))})
        try:
            out = obj.transform(fr)
            return out_rows(out, feats)
        except AssertionError:
            return "reject"

    single = {r: tr([r]) for r in rows}
    n = len(rows)
    bad = 0
    for r1 in rows:
        for r2 in rows:
            if single[r1] == "reject" or single[r2] == "reject":
                continue
            got = tr([r1, r2])
            n += 1
            if got != single[r1] + single[r2]:
                bad += 1
                if bad <= 2:
                    res["violations"].append({"kind": "not-row-wise:new-values", "what": f"{cls}: frame of rows {r1}, {r2} gives {got} but the rows alone give {single[r1]} and {single[r2]}"})
    res["evaluations"] = res["validated"] = res["transitions"] = n
    res["outcome"] = f"{cls}:new-values" + (":VIOLATION" if bad else "")
    res["nontrivial"] = f"{cls}:new-values:{case['cfg']}"
    return res


def run_chained(case):
    """ChainedDiscretizer(unknown_handling='drop'): unknown values are grouped with the missing ones; every row subset of a
    10-row frame must give the rows of the full result (whether or not the subset holds a missing value)"""
    import contextlib
    import io

    from AutoCarver.discretizers import ChainedDiscretizer, GroupedList

    vals = ["a1", "a1", "a2", "b1", "b1", "b1", "??x", "??y", np.nan, "a1"]
    X = pd.DataFrame({"h": pd.Series(vals, dtype=object), "other": list(range(10))})
    res = {"violations": [], "sample": dict(case), "evaluations": 0}
    with contextlib.redirect_stdout(io.StringIO()):
        d = ChainedDiscretizer(["h"], 0.2, [GroupedList({"A": ["a1", "a2"], "B": ["b1"]})], unknown_handling="drop", copy=True)
        X0 = X.copy(deep=True)
        d.fit(X)
        full = d.transform(X)
    if not frame_equal(X, X0):
        res["violations"].append({"kind": "fit-modifies-input", "what": "ChainedDiscretizer.fit/transform(copy=True) modified the caller's X"})
    full_rows = out_rows(full, ["h"])
    base_state = state_of(d)
    n = 0
    for mask in range(1, 2**10):
        rows = [i for i in range(10) if mask >> i & 1]
        with contextlib.redirect_stdout(io.StringIO()):
            out = d.transform(X.iloc[rows])
        n += 1
        got = out_rows(out, ["h"])
        if got != [full_rows[i] for i in rows]:
            res["violations"].append({"kind": "not-row-wise:chained", "what": f"ChainedDiscretizer: transform of rows {rows} gives {got[:4]} but the rows of the full result are {[full_rows[i] for i in rows][:4]}"})
            if len(res["violations"]) > 3:
                break
        if state_of(d) != base_state:
            res["violations"].append({"kind": "state-changed", "what": f"ChainedDiscretizer: fitted state changed after transform of rows {rows}"})
            break
    res["evaluations"] = res["validated"] = res["transitions"] = n
    res["outcome"] = "ChainedDiscretizer:drop" + (":VIOLATION" if res["violations"] else "")
    res["nontrivial"] = "ChainedDiscretizer:drop"
    return res


def run_inf(case):
    """a quantitative column holding +-inf (accepted by the quantile discretizers): with copy=True the caller's frame is not
    modified and fit_transform(X) equals fit(X').transform(X) on an identical copy X'"""
    from AutoCarver.discretizers import ContinuousDiscretizer, Discretizer, QuantitativeDiscretizer

    vals = [float(i % 8 + 1) for i in range(40)]
    vals[3], vals[10] = np.inf, -np.inf  # one saturated value at each end: every quantile cut stays finite
    X = pd.DataFrame({"q": pd.Series(vals, dtype=float), "other": list(range(40))})
    y = pd.Series([int(i % 8 >= 4) for i in range(40)])
    mk = {"ContinuousDiscretizer": lambda: ContinuousDiscretizer(["q"], 0.2, copy=True), "QuantitativeDiscretizer": lambda: QuantitativeDiscretizer(["q"], 0.2, copy=True), "Discretizer": lambda: Discretizer(["q"], [], 0.2, copy=True)}[case["cls"]]
    res = {"violations": [], "sample": dict(case), "evaluations": 2}
    X0 = X.copy(deep=True)
    try:
        a = mk().fit_transform(X, y)
        same_input = frame_equal(X, X0)
        b = mk().fit(X0.copy(deep=True), y).transform(X0.copy(deep=True))
    except Exception as exc:  # noqa  (+-inf is outside the inputs the properties call well-formed: no verdict if it is refused)
        res["outcome"] = f"inf:{case['cls']}:refused:{type(exc).__name__}"
        return res
    if not same_input:
        res["violations"].append({"kind": "fit-modifies-input", "what": f"{case['cls']}.fit_transform(copy=True) modified the caller's X (column with +-inf)"})
    if not frame_equal(a, b):
        res["violations"].append({"kind": "fit_transform-differs", "what": f"{case['cls']}: fit_transform(X, y) differs from fit(copy of X, y).transform(X) on a column with +-inf"})
    res["outcome"] = f"inf:{case['cls']}"
    res["nontrivial"] = f"inf:{case['cls']}"
    res["transitions"] = res["validated"] = 2
    return res


def run_case(case):
    if case.get("inf"):
        return run_inf(case)
    if case.get("chained"):
        return run_chained(case)
    if case.get("newrows"):
        return run_newrows(case)
    cls, cfg, seed = case["cls"], case["cfg"], case.get("seed", 0)
    A, B = frame_A(seed), frame_B(seed)
    y = target(cls)
    res = {"violations": [], "sample": {k: v for k, v in case.items() if k != "events"}, "evaluations": 0}
    res["sample"]["n_events"] = len(case["events"])
    viol = res["violations"]
    obj = make(cls, cfg)
    A0, y0 = A.copy(deep=True), y.copy(deep=True)
    Xd, yd = (A.iloc[::-1].reset_index(drop=True), pd.Series(list(y)[::-1])) if (cls.endswith("Carver") and case.get("dev")) else (None, None)
    Xd0, yd0 = (Xd.copy(deep=True), yd.copy(deep=True)) if Xd is not None else (None, None)
    if Xd is not None:
        obj.fit(A, y, X_dev=Xd, y_dev=yd)
    else:
        obj.fit(A, y)
    if not frame_equal(A, A0) or not series_equal(y, y0):
        viol.append({"kind": "fit-modifies-input", "what": f"{cls}.fit(copy=True) modified the caller's X or y"})
    if Xd is not None and (not frame_equal(Xd, Xd0) or not series_equal(yd, yd0)):
        viol.append({"kind": "fit-modifies-dev", "what": f"{cls}.fit(copy=True) modified the caller's X_dev or y_dev"})
    feats = list(obj.features)
    if len(feats) < 1:
        raise RuntimeError(f"harness: {cls} keeps no feature on the base frame")
    fitted_state = state_of(obj)
    full = obj.transform(A)
    if state_of(obj) != fitted_state:
        d0, d1 = pickle.loads(fitted_state), pickle.loads(state_of(obj))
        changed = sorted(k for k in set(d0) | set(d1) if pickle.dumps(d0.get(k)) != pickle.dumps(d1.get(k)))
        viol.append({"kind": "state-changed-by-first-transform", "what": f"{cls}: the first transform after fit altered the fitted state (attributes {changed})"})
    if not frame_equal(A, A0):
        viol.append({"kind": "transform-modifies-input", "what": f"{cls}.transform(copy=True) modified the caller's X"})
    full_rows = out_rows(full, feats)
    if case.get("first"):
        # fit_transform == fit + transform; index / columns / other columns preserved
        o2 = make(cls, cfg)
        if Xd is not None:
            ft = o2.fit(A.copy(), y.copy(), X_dev=Xd.copy(), y_dev=yd.copy()).transform(A.copy())
            ft2 = ft
        else:
            ft = make(cls, cfg).fit_transform(A.copy(), y.copy())
            ft2 = o2.fit(A.copy(), y.copy()).transform(A.copy())
        if not frame_equal(ft, full) or not frame_equal(ft2, full):
            viol.append({"kind": "fit_transform-differs", "what": f"{cls}: fit_transform(X, y) differs from fit(X, y).transform(X)"})
        if list(full.index) != list(A.index):
            viol.append({"kind": "index-changed", "what": "transform changed the index"})
        if [c for c in full.columns if c in A.columns] != list(A.columns):
            viol.append({"kind": "columns-changed", "what": f"transform changed the columns: {list(full.columns)}"})
        raw_feats = set(obj.features_casting) | set(feats)
        for c in A.columns:
            if c not in raw_feats or (cls == "MulticlassCarver" and c in obj.features_casting):
                if c in full and not series_equal(full[c], A[c]):
                    viol.append({"kind": "other-column-changed", "what": f"column {c!r} (not a fitted feature) is modified by transform"})
    base_state = state_of(obj)
    n = 0
    nontrivial = 0
    for seq in case["events"]:
        for ev in seq:
            if ev[0] == "summary":
                obj.summary()
                continue
            if ev[0] == "to_json":
                obj.to_json()
                continue
            F, rows = (B, None) if ev[0] == "frameB" else make_frame(ev, A, B)
            F0 = F.copy(deep=True)
            n += 1
            try:
                out = obj.transform(F)
            except Exception as exc:  # noqa
                viol.append({"kind": f"transform-raises:{ev[0]}", "what": f"{cls}: transform on {ev} (after {seq}) raised {type(exc).__name__}: {str(exc)[:100]}"})
                continue
            if not frame_equal(F, F0):
                viol.append({"kind": "transform-modifies-input", "what": f"{cls}: transform on {ev} modified the caller's frame"})
            if list(out.index) != list(F.index):
                viol.append({"kind": "index-changed", "what": f"{cls}: transform on {ev} does not keep the index"})
            if ev[0] == "frameB":
                exp = [full_rows[i] for i in [9, 0, 0, 4, 8, 8, 3]]
            else:
                exp = [full_rows[i] for i in rows]
            got = out_rows(out, feats)
            if got != exp:
                viol.append({"kind": f"not-row-wise:{ev[0]}", "what": f"{cls}: transform on {ev} (after {seq[:seq.index(ev)] if ev in seq else seq}) gives {got[:3]} but the rows of the full result are {exp[:3]}"})
            if state_of(obj) != base_state:
                viol.append({"kind": "state-changed", "what": f"{cls}: the fitted state changed after transform on {ev} (sequence {seq})"})
                base_state = state_of(obj)
            if len(set(exp)) >= 2:
                nontrivial += 1
        if len(viol) > 8:
            break
    res["evaluations"] = n
    res["validated"] = n
    res["transitions"] = n
    res["outcome"] = f"{cls}:{cfg['output_dtype']}:{'dropna' if cfg['dropna'] else 'keepna'}" + (":VIOLATION" if viol else "")
    res["nontrivial"] = [f"{cls}:{cfg}:{case['chunk']}:{i}" for i in range(min(nontrivial, 1))]
    del viol[6:]
    return res


def replay(case):
    return run_case(case)


def run(tier, seed, rep):
    evs = events(tier)
    singles = [[e] for e in evs]
    small = [e for e in evs if (e[0] == "subset" and e[1] in (1, 512, 513, 1023, 341, 682, 7, 896)) or e[0] in ("reindex", "frameB", "summary", "to_json", "empty", "full") or (e[0] == "perm" and e[1] in ([4, 3, 2, 1, 0], [1, 0, 2, 3, 4]))]
    pairs = [[a, b] for a in small for b in small if b[0] not in ("summary", "to_json")]
    triples = [[a, b, c] for a in small[:10] for b in small[8:16] for c in small[:10] if c[0] not in ("summary", "to_json")] if tier != "quick" else []
    seqs = singles + pairs + triples
    chunk = 256
    cases = []
    for cls in CLASSES:
        cfgs = [{"dropna": True, "output_dtype": "float"}]
        if cls.endswith("Carver"):
            cfgs += [{"dropna": False, "output_dtype": "str"}]
            if tier != "quick":
                cfgs += [{"dropna": False, "output_dtype": "float"}, {"dropna": True, "output_dtype": "str"}]
        for cfg in cfgs:
            for dev in (False, True) if cls.endswith("Carver") else (False,):
                use = seqs if not dev else singles[:: 8]
                for ci in range(0, len(use), chunk):
                    cases.append({"cls": cls, "cfg": cfg, "seed": seed, "dev": dev, "chunk": ci // chunk, "first": ci == 0, "events": use[ci : ci + chunk]})
    for cls in ("Discretizer", "QualitativeDiscretizer", "BinaryCarver"):
        for od in ("float", "str") if cls == "BinaryCarver" else ("str",):
            cases.append({"cls": cls, "cfg": {"dropna": True, "output_dtype": od}, "seed": seed, "newrows": True, "chunk": 0, "events": []})
    cases.append({"cls": "ChainedDiscretizer", "cfg": {"dropna": False, "output_dtype": "str"}, "seed": seed, "chained": True, "chunk": 0, "events": []})
    for cls in ("ContinuousDiscretizer", "QuantitativeDiscretizer", "Discretizer"):
        cases.append({"cls": cls, "cfg": {"dropna": True, "output_dtype": "str"}, "seed": seed, "inf": True, "chunk": 0, "events": []})
    rep.rule = (
        "ChainedDiscretizer(unknown_handling='drop'): all 1023 row subsets; row-wise purity on unseen values: two categorical features sharing their vocabulary, every ordered pair of the 25 row types; "
        f"E2: for each class (3 carvers, Discretizer, Qualitative-, QuantitativeDiscretizer; copy=True; carvers x dropna x output_dtype, with and "
        f"without dev sample) fitted on a 10-row frame with quantitative / categorical / ordinal / numeric-category features, missing values and "
        f"two non-feature columns: every transform history of length 1 over the event alphabet (all {2**N-1} non-empty row subsets, all 120 "
        "permutations of the first 5 rows, 4 re-indexings, a frame with repeated rows, the empty frame, summary(), to_json()), every pair and "
        "(thorough) triples over a 21-event sub-alphabet; oracle: output rows = rows of the full result, index kept, caller's frames deep-equal "
        "before/after, pickled fitted state identical before/after every transform, fit_transform = fit+transform, non-feature columns untouched"
    )
    rep.assumptions = ["the fitted state is compared as the pickle of __dict__ without _history (history() annotates its rows in place)"]
    rep.transitions = 0
    for case, res in zip(cases, pmap(run_case, cases, chunksize=1)):
        case = {k: v for k, v in case.items()}
        if res.get("violations"):
            pass
        else:
            case["events"] = f"<{len(case['events'])} sequences>"
        rep.record(case, res)
    rep.states = len(cases)
