"""C13 — GroupedList stays a consistent ordered partition under any history.

Engine E2: level-synchronous breadth-first search over API-call histories.  A state is the event
history that reaches it; `build(hist)` replays it on a fresh real GroupedList and on RefGroupedList.
Every enabled operation (finite argument alphabet over a small universe U) is applied to the real
object twice -- in place on a raw field-by-field clone, and on a copy made by the copy constructor (aliasing
invariant: the original must not change) -- and to the reference model; after every transition the
invariants and the observational equality with the reference model are checked for every v in U.
"""
from __future__ import annotations

import copy
import itertools

from ..common import pmap
from ..ref.grouped_list import RefGroupedList, norm, nsorted

PROP = "C13"

NAMES = [
    ["a", "b", "c"],
    ["m2", "m10", "m1"],
    ["z", "y", "x"],
    ["B", "a", "C"],
    ["10", "9", "1.0"],
]
NUMS = [(1, 2.5), (3, 0.5), (-1, 1e6), (7, -2.25), (2, 1e-3)]


def universe(tier, seed):
    names = NAMES[seed % len(NAMES)]
    nums = NUMS[seed % len(NUMS)]
    if tier == "quick":
        return [names[0], names[1], nums[1], "__NAN__", 0, ""]
    return [names[0], names[1], nums[0], nums[1], "__NAN__", 0, ""]  # (an 8th value: 13 M states, 74 min, 10 GB -- measured once, silent)


# -------------------------------------------------------------------------------------------------
NAN_TOKEN = "NaN"  # how a raw float NaN is written in a (JSON) history
_NAN = float("nan")


def dec(v):
    """history value -> Python value (one single NaN object per process, as identity matters for list/dict lookups)"""
    if isinstance(v, str) and v == NAN_TOKEN:
        return _NAN
    if isinstance(v, list):
        return [dec(x) for x in v]
    return v


def GL():
    from AutoCarver.discretizers import GroupedList

    return GroupedList


def raw_clone(gl):
    """field-by-field clone that runs no GroupedList code (copy.deepcopy cannot be used: it rebuilds a list
    subclass through the overridden append(), which resets `content`)"""
    g = GL().__new__(GL())
    list.__init__(g, list(gl))
    g.content = {k: list(v) for k, v in gl.content.items()}
    return g


def digest(c):
    """12-byte digest of a canonical state (the visited set of the thorough tier holds millions of states)"""
    import hashlib

    return hashlib.blake2b(repr(c).encode(), digest_size=12).digest()


def canon_real(gl):
    return (
        tuple(norm(k) for k in gl),
        tuple((norm(k), tuple(norm(v) for v in m)) for k, m in gl.content.items()),
    )


def init_events(U, tier):
    evs = []
    maxn = 2 if tier == "quick" else 3
    for n in range(0, maxn + 1):
        for t in itertools.permutations(U, n):
            evs.append(["init_list", list(t)])
    # dict constructors: <= 3 keys, <= 2 members, all values distinct; a key that is a member of an
    # other key must come with an empty list
    small = U[:5] if tier == "quick" else U[:6]
    for nk in (1, 2, 3) if tier != "quick" else (1, 2):
        for keys in itertools.permutations(small, nk):
            rest = [v for v in small if v not in keys]
            member_opts = []
            for k in keys:
                opts = [[], [k]]
                for r in rest[:2]:
                    opts += [[r], [r, k], [k, r]]
                member_opts.append(opts)
            for combo in itertools.product(*member_opts):
                flat = [v for m in combo for v in m]
                if len(set(map(norm, flat))) != len(flat):
                    continue
                evs.append(["init_dict", [[k, m] for k, m in zip(keys, combo)]])
            # a key grouped inside another key (with empty own members)
            if nk >= 2:
                evs.append(["init_dict", [[keys[0], [keys[1], keys[0]]], [keys[1], []]] + [[k, [k]] for k in keys[2:]]])
    return evs


def enc(v):
    return NAN_TOKEN if isinstance(v, float) and v != v else v


def enabled_nan(ref: RefGroupedList, U):
    """alphabet of the NaN exploration: the operations the library itself applies to orders that may hold a raw
    missing value (group / group_list / append / remove / pop / copy constructor)"""
    L = [enc(v) for v in ref.leaders()]
    V = [norm(v) for v in ref.values()]
    for d in L:
        for k in L:
            yield ["group", d, k]
    if 2 <= len(L) <= 3:
        for k in L:
            others = [d for d in L if d != k]
            for ds in itertools.permutations(others, 2):
                yield ["group_list", list(ds), k]
            for o in others:
                yield ["group_list", [k, o], k]
                yield ["group_list", [o, k], k]
    for v in U:
        if norm(dec(v)) not in V:
            yield ["append", v]
    for k in L:
        yield ["remove", k]
    for i in range(len(L)):
        yield ["pop", i]
    yield ["copy"]


def enabled(ref: RefGroupedList, U, tier):
    if NAN_TOKEN in U:
        yield from enabled_nan(ref, U)
        return
    L = ref.leaders()
    V = ref.values()
    newv = [v for v in U if not any(v == x for x in V)]
    for d in L:
        for k in L:
            yield ["group", d, k]
    if 2 <= len(L) <= 4:
        for k in L:
            others = [d for d in L if d != k]
            for ds in itertools.permutations(others, 2):
                yield ["group_list", list(ds), k]
            if others:
                yield ["group_list", [k, others[0]], k]
    for v in newv:
        yield ["append", v]
    for k, m in ref.g:
        for v in newv[:2]:
            yield ["update", [[k, list(m) + [v]]]]
    if len(newv) >= 2:
        yield ["update", [[newv[0], [newv[1], newv[0]]]]]
    for a, b in itertools.permutations(newv[: 2 if tier == "quick" else 3], 2):  # several new leaders in one call: appended in the order given
        yield ["update", [[a, [a]], [b, [b]]]]
    if len(newv) >= 3:
        yield ["update", [[newv[2], [newv[2]]], [newv[0], [newv[0]]], [newv[1], [newv[1]]]]]
    for k, m in ref.g:  # re-partition: a member is split off into a group of its own
        others = [x for x in m if norm(x) != norm(k)]
        if others:
            x = others[0]
            yield ["update", [[k, [y for y in m if norm(y) != norm(x)]], [x, [x]]]]
    for k in L:
        yield ["remove", k]
    for i in range(len(L)):
        yield ["pop", i]
    if L:
        yield ["pop", -1]
    for k, m in ref.g:
        for v in m:
            yield ["replace_group_leader", k, v]
    yield ["sort"]
    if len(L) <= 3:
        for p in itertools.permutations(L):
            yield ["sort_by", list(p)]
    elif L:
        yield ["sort_by", list(reversed(L))]
        yield ["sort_by", L[1:] + L[:1]]
    yield ["copy"]


def apply_ref(ref: RefGroupedList, ev):
    ev = dec(ev)
    r = ref.copy()
    op = ev[0]
    if op == "group":
        r.group(ev[1], ev[2])
    elif op == "group_list":
        r.group_list(ev[1], ev[2])
    elif op == "append":
        r.append(ev[1])
    elif op == "update":
        r.update({k: m for k, m in ev[1]})
    elif op == "remove":
        r.remove(ev[1])
    elif op == "pop":
        r.pop(ev[1])
    elif op == "replace_group_leader":
        r.replace_group_leader(ev[1], ev[2])
    elif op == "sort":
        r = r.sorted()
    elif op == "sort_by":
        r = r.sorted_by(ev[1])
    elif op == "copy":
        pass
    else:
        raise ValueError(op)
    return r


def apply_real(gl, ev):
    """applies in place; returns the resulting object (sort / sort_by / copy return new objects)"""
    ev = dec(ev)
    op = ev[0]
    if op == "sort":
        return gl.sort()
    if op == "sort_by":
        return gl.sort_by(list(ev[1]))
    if op == "copy":
        return GL()(gl)
    if op == "update":
        gl.update({k: list(m) for k, m in ev[1]})
        return gl
    if op == "group_list":
        gl.group_list(list(ev[1]), ev[2])
        return gl
    getattr(gl, op)(*ev[1:])
    return gl


def build(hist):
    """replays a history on a fresh real object and on the reference model"""
    ev0 = dec(hist[0])
    if ev0[0] == "init_list":
        gl = GL()(list(ev0[1]))
        ref = RefGroupedList.from_list(ev0[1])
    else:
        dic = {k: list(m) for k, m in ev0[1]}
        gl = GL()(dic)
        ref = RefGroupedList.from_dict(dic)
    for ev in hist[1:]:
        gl = apply_real(gl, ev)
        ref = apply_ref(ref, ev)
    return gl, ref


def check(gl, ref: RefGroupedList, U):
    """invariants + observational equality; returns list of error strings"""
    errs = []
    leaders = list(gl)
    if [norm(k) for k in leaders] != [norm(k) for k in ref.leaders()]:
        errs.append(f"leaders {leaders!r} != model {ref.leaders()!r}")
    if len(set(map(norm, leaders))) != len(leaders):
        errs.append(f"duplicate leaders {leaders!r}")
    if sorted(map(norm, leaders)) != sorted(map(norm, gl.content.keys())):
        errs.append(f"list elements {leaders!r} are not the keys of content {list(gl.content)!r}")
    allv = [v for m in gl.content.values() for v in m]
    if len(set(map(norm, allv))) != len(allv):
        errs.append(f"groups not disjoint: {gl.content!r}")
    for k, m in gl.content.items():
        if not any(norm(k) == norm(e) for e in m):
            errs.append(f"leader {k!r} not in its own group {m!r}")
    rc = {norm(k): nsorted(m) for k, m in ref.g}
    for k, m in gl.content.items():
        if rc.get(norm(k)) != nsorted(m):
            errs.append(f"content[{k!r}]={m!r} != model {ref.get(k)!r}")
    if nsorted(gl.values()) != nsorted(ref.values()):
        errs.append(f"values() {gl.values()!r} != model {ref.values()!r}")
    if nsorted(gl.values()) != nsorted(allv):
        errs.append("values() disagrees with content")
    probes = [dec(v) for v in U] + ([] if NAN_TOKEN in U else [float("nan")]) + ["__never__"]
    for v in probes:
        found, k = ref.group_of(v)
        got = gl.get_group(v)
        if norm(got) != norm(k):
            errs.append(f"get_group({v!r})={got!r} != model {k!r}")
        if bool(gl.contains(v)) != found:
            errs.append(f"contains({v!r})={gl.contains(v)!r} != model {found}")
        if not (isinstance(v, float) and v != v) and nsorted(gl.get(v)) != nsorted(ref.get(v)):
            errs.append(f"get({v!r})={gl.get(v)!r} != model {ref.get(v)!r}")
    return errs


def classify(ev, err):
    """known-finding attribution (explanation-based, see known_findings.json)"""
    return None


_U = None
_TIER = None


def expand(hist):
    """one BFS node: rebuild the state, fire every enabled operation, check, return successors"""
    U = _U
    out = {"succ": [], "violations": [], "transitions": 0, "outcomes": []}
    try:
        gl, ref = build(hist)
    except Exception as exc:  # an initial state / history that cannot be rebuilt is a harness bug
        raise RuntimeError(f"cannot rebuild {hist!r}: {type(exc).__name__}: {exc}")
    if len(hist) == 1:  # initial state: check it too
        errs = check(gl, ref, U)
        if errs:
            out["violations"].append({"what": f"{hist[0][0]}: {errs[0]}", "hist": hist, "errors": errs})
    base = canon_real(gl)
    for ev in enabled(ref, U, _TIER):
        out["transitions"] += 1
        r2 = apply_ref(ref, ev)
        results = []
        for mode in ("deepcopy", "copyctor"):
            src = raw_clone(gl) if mode == "deepcopy" else GL()(gl)
            try:
                g2 = apply_real(src, ev)
                errs = check(g2, r2, U)
                if canon_real(gl) != base:
                    errs.append(f"aliasing: operation on a {mode} copy changed the original")
                    gl, _ = build(hist)
            except Exception as exc:
                g2, errs = None, [f"raised {type(exc).__name__}: {str(exc)[:80]}"]
            results.append((g2, errs))
        (ga, ea), (gb, eb) = results
        errs = ea or eb
        if not errs and len(hist) <= 2:
            # a second object built from the first one's live `content` dict lives its own life
            try:
                other = GL()(gl.content)
            except Exception:  # noqa
                other = None
            if other is not None:
                try:
                    apply_real(other, ev)
                except Exception:  # noqa  (the dict constructor orders leaders by content: the event may not be valid for it)
                    pass
                if canon_real(gl) != base:
                    errs = [f"aliasing: operation on GroupedList(first.content) changed the first object"]
                    gl, _ = build(hist)
        if not errs and canon_real(ga) != canon_real(gb):
            errs = [f"copy-constructed object diverges from original after {ev[0]}"]
        if errs:
            out["violations"].append({"what": f"{ev[0]}: {errs[0]}", "hist": hist + [ev], "errors": errs[:6], "finding": classify(ev, errs[0])})
            out["outcomes"].append("violation:" + ev[0])
            continue
        out["outcomes"].append(ev[0])
        out["succ"].append((digest(canon_real(ga)), ev, any(len(m) > 1 for _, m in r2.g)))
    return out


def replay(case):
    """re-executes the last transition of the recorded history exactly as the explorer did (both clone modes)"""
    global _U, _TIER
    _U, _TIER = case["U"], case.get("tier", "thorough")
    hist = case["hist"]
    if len(hist) == 1:
        viol = expand_or_init(hist)["violations"]
    else:
        viol = [v for v in expand(hist[:-1])["violations"] if v["hist"] == hist]
    return {"outcome": "violation" if viol else "ok", "violations": viol}


def explore(U, tier, depth, inits, rep, tag):
    """level-synchronous BFS from the given initial events; returns the dict canonical state -> history"""
    global _U, _TIER
    _U, _TIER = U, tier
    seen = {}
    per_depth = []
    frontier = []
    n0 = 0
    for ev, res in zip(inits, pmap(expand_or_init, [[ev] for ev in inits])):
        if "__harness_error__" in res or "canon" not in res:
            rep.record({"U": U, "tier": tier, "hist": [ev]}, res)
            continue
        c = res["canon"]
        if c in seen:
            continue
        seen[c] = [ev]
        n0 += 1
        if res["nontrivial"]:
            rep.nontrivial.add(tag + c.hex())
        if res["violations"]:
            for v in res["violations"]:
                rep.violation({"U": U, "tier": tier, "hist": v["hist"]}, v)
            continue
        frontier.append([ev])
    rep.transitions += len(inits)
    per_depth.append({"depth": 0, "new_states": n0})
    for level in range(1, depth + 1):
        if not frontier:
            break
        nxt = []
        n_new = 0
        for hist, res in zip(frontier, pmap(expand, frontier)):
            if "__harness_error__" in res or "succ" not in res:
                rep.record({"U": U, "tier": tier, "hist": hist}, res)
                continue
            rep.transitions += res["transitions"]
            rep.validated += res["transitions"]
            for o in res["outcomes"]:
                rep.outcomes[tag + o] += 1
            for v in res["violations"]:
                rep.violation({"U": U, "tier": tier, "hist": v["hist"]}, v)
            for c, ev, nontriv in res["succ"]:
                if c in seen:
                    continue
                seen[c] = hist + [ev]
                n_new += 1
                if nontriv:
                    rep.nontrivial.add(tag + c.hex())
                nxt.append(hist + [ev])
        per_depth.append({"depth": level, "new_states": n_new})
        frontier = nxt  # states found at the last level are checked by the transition into them, not expanded
    rep.extra.setdefault("per_depth", {})[tag or "main"] = per_depth
    return seen


def run(tier, seed, rep):
    U = universe(tier, seed)
    depth = 3  # thorough: the larger universe and the larger constructors at depth 3, plus depth 4 over a 4-value universe (below)
    rep.rule = (
        f"level-synchronous BFS over GroupedList call histories, universe U={U!r}, initial states = every list "
        f"constructor over <=2 (quick) / <=3 distinct elements of U and the dict constructors over <=2 / <=3 keys, depth {depth}; "
        "alphabet: group, group_list, append, update, remove, pop, sort, sort_by, replace_group_leader, copy with every valid "
        "argument tuple; each transition executed on a raw clone and on a copy-constructed object and on RefGroupedList; "
        "second exploration with a raw float NaN stored in the list (universe [str, number, NaN], alphabet group, group_list, "
        "append, remove, pop, copy -- the operations the library applies to such orders), depth 3/4; thorough adds depth 4 over a 4-value universe; "
        "a state is non-trivial when some group has >= 2 members (counted on distinct canonical states)"
    )
    rep.assumptions = [
        "values are compared by == (NaN equal to NaN); the Python type of a leader (int vs numpy.float64 after sort()) is not observed",
        "a raw float NaN is explored only with group / group_list / append / remove / pop / copy (the dict constructor, sort and sort_by are documented for str_nan sentinels)",
        "member order inside a group is not part of the property",
        "visited states are identified by a 96-bit digest of their canonical form",
    ]
    seen = explore(U, tier, depth, init_events(U, tier), rep, "")
    names, nums = NAMES[seed % len(NAMES)], NUMS[seed % len(NUMS)]
    U2 = [names[0], nums[0], NAN_TOKEN, "__NAN__"]
    inits2 = [["init_list", list(t)] for n in range(0, 4) for t in itertools.permutations(U2, n)]
    seen2 = explore(U2, tier, depth if tier == "quick" else 4, inits2, rep, "nan:")
    rep.states = len(seen) + len(seen2)
    if tier != "quick":
        U3 = [names[0], nums[1], 0, ""]
        seen3 = explore(U3, tier, 4, init_events(U3, "quick"), rep, "deep:")
        rep.states += len(seen3)
        rep.extra["universe_deep"] = U3
    rep.evaluations = rep.transitions
    # self-test: replaying a whole history from scratch is deterministic, on a deterministic subsample
    global _U, _TIER
    _U, _TIER = U, tier
    hists = list(seen.values())
    step = max(1, len(hists) // 400)
    for h in hists[::step]:
        g1, _ = build(h)
        g2, _ = build(h)
        if canon_real(g1) != canon_real(g2):
            raise RuntimeError("history replay is not deterministic")
    rep.extra["replay_determinism_samples"] = len(hists[::step])
    for h in hists[:: max(1, len(hists) // 4)][:4] + list(seen2.values())[-1:]:
        g, r = build(h)
        rep.sample({"history": h, "list": [repr(x) for x in g], "content": {repr(k): [repr(x) for x in v] for k, v in g.content.items()}})
    rep.extra["depth_completed"] = depth if tier == "quick" else {"main": 3, "nan": 4, "deep": 4}
    rep.extra["universe"] = U
    rep.extra["universe_nan"] = U2


def expand_or_init(hist):
    """initial states: build, check, return canonical form"""
    gl, ref = build(hist)
    errs = check(gl, ref, _U)
    out = {"canon": digest(canon_real(gl)), "violations": [], "nontrivial": any(len(m) > 1 for _, m in ref.g)}
    if errs:
        out["violations"].append({"what": f"{hist[0][0]}: {errs[0]}", "hist": hist, "errors": errs[:6]})
    return out
