"""C12 — MulticlassCarver equals one-vs-rest BinaryCarvers (E1, differential oracle)."""
from __future__ import annotations

import math

import pandas as pd

from .. import space
from ..common import pmap
from . import carving_space

PROP = "C12"

# the omitted class is the first one in STRING order: [2, 10, 33] -> '10' (numerically 2), [-2, -1, 0] -> '-1' (numerically -2)
CLASS_LABELS = [[0, 1, 2], ["a", "b", "c"], [2, 10, 33], ["10", "9", "b"], [-2, -1, 0], [2, 10, 1]]


def eq_val(a, b):
    na = a is None or (isinstance(a, float) and math.isnan(a))
    nb = b is None or (isinstance(b, float) and math.isnan(b))
    if na or nb:
        return na and nb
    return a == b


def run_case(case):
    from AutoCarver import BinaryCarver, MulticlassCarver

    X, y, Xd, yd, vals = space.build_frames(case)
    res = {"violations": [], "sample": dict(case)}
    viol = res["violations"]
    def kw():  # fresh argument objects for every estimator: the caller's lists must never be shared between them
        return space.carver_kwargs(case, vals)

    try:
        M = MulticlassCarver(**kw())
        if Xd is not None:
            M.fit(X, y, X_dev=Xd, y_dev=yd)
        else:
            M.fit(X, y)
    except AssertionError as exc:
        res["outcome"] = "multiclass-assert"
        return res
    except Exception as exc:  # noqa
        res["outcome"] = "multiclass-internal(C08)"
        viol.append({"kind": "multiclass-raises", "what": f"MulticlassCarver.fit raised {type(exc).__name__}: {str(exc)[:100]} ({space.innermost_frame(exc)})"})
        return res
    classes = sorted({str(v) for v in y.tolist()})
    try:
        out = M.transform(X)
    except Exception as exc:  # noqa
        viol.append({"kind": "multiclass-transform-raises", "what": f"MulticlassCarver.transform raised {type(exc).__name__}: {str(exc)[:100]}"})
        res["outcome"] = "transform-raises"
        return res
    # raw column returned unchanged
    if "f" not in out.columns:
        viol.append({"kind": "raw-column-lost", "what": f"raw feature column 'f' is not in the output (columns {list(out.columns)})"})
    elif not all(eq_val(a, b) for a, b in zip(out["f"].tolist(), X["f"].tolist())):
        viol.append({"kind": "raw-column-changed", "what": "raw feature column 'f' is modified by transform"})
    # a frame never seen at fit: a known value, a never-seen modality, a missing value (if some were seen)
    Xnew = None
    if case.get("newframe"):
        seen = [v for v in X["f"].tolist() if not (isinstance(v, float) and math.isnan(v))]
        newvals = [seen[0], seen[-1], "never_seen" if case["kind"] != "QNT" else max(seen) + 1.0] + ([float("nan")] if case.get("nan") else [])
        Xnew = pd.DataFrame({"f": pd.Series(newvals, dtype=X["f"].dtype)})

        def outcome_new(o, col):
            try:
                return ("ok", o.transform(Xnew.copy())[col].tolist())
            except Exception as exc:  # noqa
                return ("raise", type(exc).__name__)

    kept = []
    for ci in classes[1:]:
        name = f"f_{ci}"
        yb = (y.astype(str) == ci).astype(int)
        ydb = (yd.astype(str) == ci).astype(int) if yd is not None else None
        try:
            B = BinaryCarver(**kw())
            if Xd is not None:
                B.fit(X, yb, X_dev=Xd, y_dev=ydb)
            else:
                B.fit(X, yb)
            b_kept = "f" in B.features
            b_out = B.transform(X)["f"].tolist() if b_kept else None
        except AssertionError:
            b_kept, b_out = None, None
        except Exception as exc:  # noqa
            res["outcome"] = "binary-internal(C08)"
            return res
        m_kept = name in M.features
        if b_kept is None:
            continue
        if m_kept != b_kept:
            viol.append({"kind": "kept-differs", "what": f"class {ci!r}: MulticlassCarver keeps {name}: {m_kept}, BinaryCarver on 1[y={ci}] keeps f: {b_kept}"})
            continue
        if m_kept:
            kept.append(ci)
            if name not in out.columns:
                viol.append({"kind": "column-missing", "what": f"{name} is a kept feature but not a column of the output"})
            elif not all(eq_val(a, b) for a, b in zip(out[name].tolist(), b_out)):
                viol.append({"kind": "output-differs", "what": f"class {ci!r}: {name} = {out[name].tolist()[:8]} but BinaryCarver gives {b_out[:8]}"})
            elif Xnew is not None:
                om, ob = outcome_new(M, name), outcome_new(B, "f")
                same = om[0] == ob[0] and (om[1] == ob[1] if om[0] == "raise" else all(eq_val(a, b) for a, b in zip(om[1], ob[1])))
                if not same:
                    viol.append({"kind": "new-frame-differs", "what": f"class {ci!r}: on a new frame {name} -> {om} but BinaryCarver -> {ob}"})
    # re-transforming an already transformed frame, and a frame with repeated index labels (two stacked batches)
    if kept and not viol:
        try:
            again = M.transform(out.copy())
            for ci in kept:
                if not all(eq_val(a, b) for a, b in zip(again[f"f_{ci}"].tolist(), out[f"f_{ci}"].tolist())):
                    viol.append({"kind": "retransform-differs", "what": f"class {ci!r}: transforming the already transformed frame changes f_{ci}"})
                    break
        except Exception as exc:  # noqa
            viol.append({"kind": "retransform-raises", "what": f"transform of an already transformed frame raised {type(exc).__name__}: {str(exc)[:100]}"})
        try:
            Xdup = pd.concat([X, X.iloc[:3]])
            od = M.transform(Xdup.copy())
            if len(od) != len(Xdup):
                viol.append({"kind": "dup-index-rows", "what": f"{len(od)} rows returned for a frame of {len(Xdup)} rows with repeated index labels"})
            else:
                for ci in kept:
                    exp = out[f"f_{ci}"].tolist() + out[f"f_{ci}"].tolist()[:3]
                    if not all(eq_val(a, b) for a, b in zip(od[f"f_{ci}"].tolist(), exp)):
                        viol.append({"kind": "dup-index-differs", "what": f"class {ci!r}: f_{ci} differs on a frame with repeated index labels"})
                        break
        except Exception as exc:  # noqa
            viol.append({"kind": "dup-index-raises", "what": f"transform of a frame with repeated index labels raised {type(exc).__name__}: {str(exc)[:100]}"})
    extra = [f for f in M.features if f not in [f"f_{c}" for c in classes[1:]]]
    if extra:
        viol.append({"kind": "unexpected-features", "what": f"features {extra} do not correspond to a class c1..ck of {classes}"})
    res["outcome"] = f"{case['kind']}:kept{len(kept)}of{len(classes)-1}"
    if kept:
        res["nontrivial"] = repr(sorted(case.items(), key=str))
    return res


def replay(case):
    return run_case(case)


def enumerate_cases(tier, seed):
    cases, transitions = [], 0
    alpha = carving_space.alphabet("multiclass", tier)
    cfg0 = {"sort_by": "tschuprowt", "max_n_mod": 3, "min_freq": 0.1, "min_freq_mod": None, "output_dtype": "float", "dropna": True}
    cfgs = [cfg0, dict(cfg0, min_freq_mod=0.25), dict(cfg0, sort_by="cramerv", max_n_mod=2), dict(cfg0, output_dtype="str"), dict(cfg0, min_freq_mod=0.125, max_n_mod=4)]
    for kind in ("ORD", "QNT", "CAT"):
        tabs, tr = carving_space.tables("multiclass", kind, tier, kmax=3 if tier == "quick" else 4)
        transitions += tr
        for cells in tabs:
            k = len(cells)
            for ci, labels in enumerate(CLASS_LABELS):
                if tier == "quick" and (k == 3 and ci not in (0, 2) or ci >= 5):
                    continue
                for cfg in cfgs if (k <= 2 or tier != "quick") else cfgs[:2]:
                    cases.append({"carver": "multiclass", "kind": kind, "cells": [list(c) for c in cells], "nan": None, "dev": None, "cfg": cfg, "seed": seed, "classes": labels})
                # missing values, dev sample
                if k <= 3:
                    for dropna in (True, False):
                        cases.append({"carver": "multiclass", "kind": kind, "cells": [list(c) for c in cells], "nan": list(alpha[0]), "dev": None, "cfg": dict(cfg0, dropna=dropna), "seed": seed, "classes": labels})
                    dev = {"cells": [list(c) for c in cells], "nan": None, "name": "same"}
                    cases.append({"carver": "multiclass", "kind": kind, "cells": [list(c) for c in cells], "nan": None, "dev": dev, "cfg": cfg0, "seed": seed, "classes": labels})
                    d2 = [list(c) for c in cells]
                    d2[0], d2[-1] = d2[-1], d2[0]
                    dev = {"cells": d2, "nan": None, "name": "swapends"}
                    cases.append({"carver": "multiclass", "kind": kind, "cells": [list(c) for c in cells], "nan": None, "dev": dev, "cfg": dict(cfg0, min_freq_mod=0.25), "seed": seed, "classes": labels})
    # a categorical feature that comes with a previous grouping of its categories (values_orders of a non-ordinal feature)
    tabs, tr = carving_space.tables("multiclass", "CAT", tier, kmax=3 if tier == "quick" else 4)
    for cells in tabs:
        if len(cells) < 3:
            continue
        for labels in CLASS_LABELS[:2]:
            for cfg in (cfg0, dict(cfg0, output_dtype="str", max_n_mod=4)):
                cases.append({"carver": "multiclass", "kind": "CAT", "cells": [list(c) for c in cells], "nan": None, "dev": None, "cfg": cfg, "seed": seed, "classes": labels, "pregroup": True})
    # user-chosen sentinels and a new frame with a never-seen modality / missing value
    KW = {"str_nan": "MISSING", "str_default": "OTHERS"}
    for kind in ("CAT", "ORD", "QNT"):
        tabs, tr = carving_space.tables("multiclass", kind, tier, kmax=3)
        for cells in tabs[:: 2 if tier == "quick" else 1]:
            for nan in (None, alpha[0]):
                for kw in (KW, None):
                    c = {"carver": "multiclass", "kind": kind, "cells": [list(x) for x in cells], "nan": list(nan) if nan else None, "dev": None, "cfg": dict(cfg0, min_freq=0.25), "seed": seed, "classes": CLASS_LABELS[1], "newframe": True}
                    if kw:
                        c["kw"] = kw
                    cases.append(c)
    transitions += len(cases)
    return cases, transitions


def run(tier, seed, rep):
    cases, transitions = enumerate_cases(tier, seed)
    rep.rule = (
        "E1: 3-class cells Sigma_m^k (k=2..3, thorough 4) x kinds ORD/QNT/CAT x class labels (ints, strings, {2,10,1} and {'10','9','b'} whose "
        "string order differs from numeric order) x configurations (default, explicit min_freq_mod, cramerv/max_n_mod=2, str output, "
        "max_n_mod=4) x missing cell x dropna x dev sample; differential oracle: for every class ci (i>=1 in string order) f_ci is kept "
        "iff a BinaryCarver with the same parameters fitted on 1[y=ci] keeps f, the two outputs are equal row by row, and the raw column "
        "is returned unchanged. non-trivial = at least one class column kept"
    )
    rep.transitions = transitions
    for case, res in zip(cases, pmap(run_case, cases)):
        res["transitions"] = 0
        rep.record(case, res)
