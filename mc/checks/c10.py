"""C10 — features are processed independently; parallel equals sequential (E3: controlled set / Pool seams)."""
from __future__ import annotations

import itertools
import json
import math
import os
import subprocess
import sys

import numpy as np
import pandas as pd

from .. import common, sched, space
from ..common import pmap
from ..ref.grouped_list import norm

PROP = "C10"
CLASSES = ["Discretizer", "BinaryCarver", "ContinuousCarver"]
MULTI_SIDS = [0, 6]  # MulticlassCarver is explored on these scenarios


def isnan(v):
    return v is None or (isinstance(v, float) and math.isnan(v))


def scenario(sid, seed=0):
    """returns X, feature spec {name: kind}, ordinal rankings"""
    names = space.names_for(seed, 3)
    a, b = space.scale_for(seed)
    if sid == 0:
        n = 24
        X = pd.DataFrame(
            {
                "q1": pd.Series([a * v + b for v in ([1] * 4 + [2] * 4 + [3] * 4) * 2], dtype=float),
                "q2": pd.Series([5, 6, 7, np.nan, 6, 7, 5, 6, 7, 5, 6, np.nan] * 2, dtype=float),
                "c": pd.Series([names[0], names[0], names[1], names[1], names[2], names[2]] * 4, dtype=object),
                "n": pd.Series([1, 2.0, 3] * 8, dtype=object),
            }
        )
        kinds = {"q1": "QNT", "q2": "QNT", "c": "CAT", "n": "CAT"}
        ranks = {}
    elif sid == 1:
        n = 24
        X = pd.DataFrame(
            {
                "o": pd.Series(["lo"] * 8 + ["mid"] * 8 + ["hi"] * 8, dtype=object),
                "q": pd.Series([float(i % 5) for i in range(n)], dtype=float),
                "c": pd.Series([names[i % 3] if i % 7 else np.nan for i in range(n)], dtype=object),
                "z": pd.Series([1.0] * n, dtype=float),  # constant: dropped by carvers
            }
        )
        kinds = {"o": "ORD", "q": "QNT", "c": "CAT", "z": "QNT"}
        ranks = {"o": ["lo", "mid", "hi"]}
    elif sid == 3:
        # several id-like qualitative columns (all dropped) next to a regular one, and quantitative features that are
        # missing on the same block of rows
        n = 24
        X = pd.DataFrame(
            {
                "ida": pd.Series([f"a{i}" for i in range(n)], dtype=object),
                "idb": pd.Series([f"b{i}" for i in range(n)], dtype=object),
                "idc": pd.Series([f"c{(i * 7) % n}" for i in range(n)], dtype=object),
                "c": pd.Series([names[i % 3] for i in range(n)], dtype=object),
            }
        )
        kinds = {"ida": "CAT", "idb": "CAT", "idc": "CAT", "c": "CAT"}
        ranks = {}
    elif sid == 4:
        n = 24
        nanblock = [np.nan] * 6
        X = pd.DataFrame(
            {
                "u": pd.Series(nanblock + [float(i % 6) for i in range(n - 6)], dtype=float),
                "v": pd.Series(nanblock + [float((i * 5) % 7) for i in range(n - 6)], dtype=float),
                "w": pd.Series([np.nan] * 3 + [float(i % 4) for i in range(n - 3)], dtype=float),
                "c": pd.Series([names[i % 3] for i in range(n)], dtype=object),
            }
        )
        kinds = {"u": "QNT", "v": "QNT", "w": "QNT", "c": "CAT"}
        ranks = {}
    elif sid == 7:
        # an int64 feature whose magnitude exceeds 2**53 (nanosecond timestamps) next to float features: its cut points must
        # not depend on being handled in one array together with floats
        n = 24
        X = pd.DataFrame(
            {
                "ts": pd.Series([2**60 + 1000 * ((7 * i) % n) for i in range(n)], dtype="int64"),
                "fl": pd.Series([0.5 * (i % 6) for i in range(n)], dtype=float),
                "q": pd.Series([float(i % 4) for i in range(n)], dtype=float),
                "c": pd.Series([names[i % 3] for i in range(n)], dtype=object),
            }
        )
        kinds = {"ts": "QNT", "fl": "QNT", "q": "QNT", "c": "CAT"}
        ranks = {}
    elif sid == 9:
        # 48 rows: a value carried by 7/48 = 14.6 % of the rows (between 1/7 and 0.15: whether it is "over-represented"
        # depends on how the number of quantiles is derived from min_freq = 0.15) and a zero-inflated column
        n = 48
        X = pd.DataFrame(
            {
                "z": pd.Series([0.0] * 7 + [1.0 + 0.5 * i for i in range(n - 7)], dtype=float),
                "w": pd.Series([0.0] * 20 + [float(1 + (i * 5) % 28) for i in range(n - 20)], dtype=float),
                "q": pd.Series([float(i % 4) for i in range(n)], dtype=float),
                "c": pd.Series([names[i % 3] for i in range(n)], dtype=object),
            }
        )
        kinds = {"z": "QNT", "w": "QNT", "q": "QNT", "c": "CAT"}
        ranks = {}
    elif sid == 8:
        # the object is built with the values_orders of an earlier fit on other data: stale cut points for two of the
        # quantitative features (a fit recomputes every quantitative feature's quantiles, whatever the code path)
        n = 24
        X = pd.DataFrame(
            {
                "q1": pd.Series([float(i // 6) for i in range(n)], dtype=float),
                "q2": pd.Series([float((i * 5) % 4) for i in range(n)], dtype=float),
                "q3": pd.Series([float(i % 3) + 0.5 for i in range(n)], dtype=float),
                "c": pd.Series([names[i % 3] for i in range(n)], dtype=object),
            }
        )
        kinds = {"q1": "QNT", "q2": "QNT", "q3": "QNT", "c": "CAT"}
        ranks = {"q1": [0.25, math.inf], "q3": [100.0, 200.0, math.inf]}
    elif sid == 6:
        # feature names that look like the per-class copies MulticlassCarver creates (lag -> lag_1, lag_2)
        n = 24
        X = pd.DataFrame(
            {
                "lag": pd.Series([float(i // 6) for i in range(n)], dtype=float),
                "lag_1": pd.Series([float((i * 5) % 4) for i in range(n)], dtype=float),
                "c": pd.Series([names[i % 3] for i in range(n)], dtype=object),
                "c_2": pd.Series([names[(i // 2) % 3] for i in range(n)], dtype=object),
            }
        )
        kinds = {"lag": "QNT", "lag_1": "QNT", "c": "CAT", "c_2": "CAT"}
        ranks = {}
    elif sid == 5:
        # two categorical features sharing their vocabulary (one value is unseen for `home` but frequent for `work`),
        # both with rare categories (default group); an ordinal feature stored as numbers with a ranking of strings
        n = 24
        X = pd.DataFrame(
            {
                "home": pd.Series(["A"] * 9 + ["B"] * 9 + ["C"] * 4 + ["r1", "r2"], dtype=object),
                "work": pd.Series((["D", "A", "B"] * 8)[:22] + ["w1", "w2"], dtype=object),
                "q": pd.Series([float(i % 4) for i in range(n)], dtype=float),
                "r": pd.Series([1.0, 2.0, 3.0] * 8, dtype=object),
            }
        )
        kinds = {"home": "CAT", "work": "CAT", "q": "QNT", "r": "ORD"}
        ranks = {"r": ["1", "2", "3"]}
    else:
        n = 24
        X = pd.DataFrame(
            {
                "id": pd.Series([f"id{i}" for i in range(n)], dtype=object),  # all distinct: dropped
                "q1": pd.Series([float(i // 6) for i in range(n)], dtype=float),
                "q2": pd.Series([float((i * 5) % 4) for i in range(n)], dtype=float),
                "q3": pd.Series([float(i % 3) + 0.5 for i in range(n)], dtype=float),
            }
        )
        kinds = {"id": "CAT", "q1": "QNT", "q2": "QNT", "q3": "QNT"}
        ranks = {}
    return X, kinds, ranks


def new_frame(sid, X):
    """a frame to transform after fit (values seen by one feature but not by another); None for most scenarios"""
    if sid != 5:
        return None
    return pd.DataFrame(
        {
            "home": pd.Series(["D", "A", "zz", "B"], dtype=object),
            "work": pd.Series(["A", "D", "D", "zz"], dtype=object),
            "q": pd.Series([0.0, 1.0, 2.5, -1.0], dtype=float),
            "r": pd.Series([3.0, 1.0, 2.0, 2.0], dtype=object),
        }
    )


def target(cls, n):
    pat = [0, 0, 0, 1, 0, 0, 1, 1, 0, 1, 1, 1] * (n // 12)
    if cls == "ContinuousCarver":
        return pd.Series([p * 2 + (i % 3) * 0.5 + (i // 8) for i, p in enumerate(pat)])
    if cls == "MulticlassCarver":
        return pd.Series([(p + i // 5) % 3 for i, p in enumerate(pat)])
    return pd.Series(pat)


def build(cls, feats, kinds, ranks, n_jobs, mf=0.1):
    from AutoCarver import BinaryCarver, ContinuousCarver
    from AutoCarver.discretizers import Discretizer

    quanti = [f for f in feats if kinds[f] == "QNT"]
    quali = [f for f in feats if kinds[f] == "CAT"]
    ordi = [f for f in feats if kinds[f] == "ORD"]
    vo = {f: list(ranks[f]) for f in ordi}
    vo.update({f: list(ranks[f]) for f in quanti if f in ranks})  # scenario 8: orders of an earlier fit handed over
    if cls == "Discretizer":
        return Discretizer(quanti, quali, mf, ordinal_features=ordi, values_orders=vo, copy=True, n_jobs=n_jobs)
    kw = dict(min_freq=mf, quantitative_features=quanti, qualitative_features=quali, ordinal_features=ordi, values_orders=vo, max_n_mod=3, copy=True, n_jobs=n_jobs)
    if cls == "BinaryCarver":
        return BinaryCarver(sort_by="tschuprowt", **kw)
    if cls == "MulticlassCarver":
        from AutoCarver import MulticlassCarver

        return MulticlassCarver(sort_by="tschuprowt", **kw)
    return ContinuousCarver(**kw)


def outcome(obj, X, feats, Xnew=None):
    out = {}
    tr = obj.transform(X.copy())
    trn = None
    if Xnew is not None:
        try:
            trn = obj.transform(Xnew.copy())
        except Exception as exc:  # noqa
            trn = f"raises {type(exc).__name__}"
    casting = getattr(obj, "features_casting", None) or {}
    if type(obj).__name__ == "MulticlassCarver":
        # per raw feature: the outcome of each of its per-class copies
        for f in feats:
            per = {}
            for cf in sorted(casting.get(f, [])):
                o = obj.values_orders[cf]
                canon = [[list(norm(k)), sorted(list(norm(v)) for v in o.content[k])] for k in o]
                per[cf[len(f) :]] = [canon, [("nan" if isnan(v) else (float(v) if isinstance(v, (int, float, np.integer, np.floating)) else str(v))) for v in tr[cf].tolist()]]
            out[f] = ["kept" if per else "dropped", per, None]
        return json.loads(json.dumps(out))
    for f in feats:
        if f not in obj.features:
            out[f] = ["dropped", None, [("nan" if isnan(v) else v) for v in tr[f].tolist()] == [("nan" if isnan(v) else v) for v in X[f].tolist()]]
            continue
        o = obj.values_orders[f]
        canon = [[list(norm(k)) + [repr(k)], sorted(list(norm(v)) + [repr(v)] for v in o.content[k])] for k in o]
        out[f] = ["kept", canon, [("nan" if isnan(v) else (float(v) if isinstance(v, (int, float, np.integer, np.floating)) else str(v))) for v in tr[f].tolist()]]
        if trn is not None:
            out[f].append(trn if isinstance(trn, str) else [("nan" if isnan(v) else (float(v) if isinstance(v, (int, float, np.integer, np.floating)) else str(v))) for v in trn[f].tolist()])
    return json.loads(json.dumps(out))


def fit_outcome(cls, sid, seed, feats, n_jobs, columns=None, index=None, mf=0.1):
    X, kinds, ranks = scenario(sid, seed)
    if columns is not None:
        X = X[list(columns)]
    y = target(cls, len(X))
    if index is not None:  # row labels other than 0..n-1 (outcomes are compared by position)
        n = len(X)
        labels = [f"r{(7 * i) % n}" for i in range(n)] if index == "str" else [(7 * i + 3) % n for i in range(n)]
        X, y = X.set_axis(labels, axis=0), y.set_axis(labels, axis=0)
    obj = build(cls, list(feats), kinds, ranks, n_jobs, mf)
    obj.fit(X, y)
    Xnew = new_frame(sid, X)
    if Xnew is not None and columns is not None:
        Xnew = Xnew[list(columns)]
    if Xnew is not None and index is not None:
        Xnew = Xnew.set_axis(list(X.index)[::-1][: len(Xnew)], axis=0)
    return outcome(obj, X, list(feats), Xnew)


_REF = {}


def reference(cls, sid, seed, mf=0.1):
    """per feature: the single-feature sequential fit (no seams active)"""
    key = (cls, sid, seed, mf)
    if key not in _REF:
        sched.uninstall()
        _, kinds, _ = scenario(sid, seed)
        ref = {}
        for f in kinds:
            ref.update(fit_outcome(cls, sid, seed, [f], 1, mf=mf))
        _REF[key] = ref
    return _REF[key]


def compare(got, ref, feats):
    diffs = []
    for f in feats:
        if got.get(f) != ref[f]:
            a, b = got.get(f), ref[f]
            what = "kept/dropped" if a[0] != b[0] else ("values_orders" if a[1] != b[1] else ("transform output" if a[2] != b[2] else "transform of a new frame"))
            diffs.append(f"{f}: {what} differs from the single-feature sequential fit")
    return diffs


def run_case(case):
    cls, sid, seed = case["cls"], case["sid"], case.get("seed", 0)
    mf = case.get("min_freq", 0.1)
    ref = reference(cls, sid, seed, mf)
    _, kinds, _ = scenario(sid, seed)
    feats = case.get("feats") or list(kinds)
    res = {"violations": [], "sample": dict(case)}
    mode = case["mode"]
    if mode == "plan":
        sched.install()
        rank = {f: r for f, r in zip(sorted(kinds), case.get("rank") or range(len(kinds)))}
        sched.reset(case["plan"], names=list(kinds), rank=rank)
        try:
            got = fit_outcome(cls, sid, seed, feats, case.get("n_jobs", 2), case.get("columns"), case.get("index"), mf)
        finally:
            trace = list(sched.TRACE)
            sched.reset()
            sched.uninstall()
        res["trace"] = trace
        res["outcome"] = f"{cls}:sched"
    else:  # plain: subsets / orderings / column orders, n_jobs=1, no seams
        sched.uninstall()
        got = fit_outcome(cls, sid, seed, feats, 1, case.get("columns"), case.get("index"), mf)
        res["outcome"] = f"{cls}:{mode}"
    diffs = compare(got, ref, feats)
    for d in diffs[:2]:
        res["violations"].append({"kind": f"{mode}:" + d.split(":")[1].strip().split(" differs")[0], "what": f"{cls} scenario {sid} {mode} {case.get('plan', '')} feats={feats}: {d}"})
    kept = sum(1 for f in feats if got.get(f, ["?"])[0] == "kept")
    if kept >= 2:
        res["nontrivial"] = repr(sorted((k, str(v)) for k, v in case.items()))
    return res


def replay(case):
    return run_case(case)


REAL_SCRIPT = r"""
import sys, json, warnings
warnings.filterwarnings("ignore")
sys.path.insert(0, sys.argv[1]); sys.path.insert(0, sys.argv[2])
from mc.checks import c10
cls, sid, seed, n_jobs = sys.argv[3], int(sys.argv[4]), int(sys.argv[5]), int(sys.argv[6])
X, kinds, ranks = c10.scenario(sid, seed)
print("RESULT" + json.dumps(c10.fit_outcome(cls, sid, seed, list(kinds), n_jobs)))
"""


def real_run(args):
    cls, sid, seed, n_jobs, hashseed = args
    env = dict(os.environ, PYTHONHASHSEED=str(hashseed))
    r = subprocess.run([sys.executable, "-c", REAL_SCRIPT, common.SRC, common.VERIF, cls, str(sid), str(seed), str(n_jobs)], capture_output=True, text=True, env=env, timeout=300)
    for line in r.stdout.splitlines():
        if line.startswith("RESULT"):
            return json.loads(line[6:])
    return {"__error__": (r.stderr or r.stdout)[-400:]}


def run(tier, seed, rep):
    sids = [0, 1, 3, 4, 5, 7, 8, 9] if tier == "quick" else [0, 1, 2, 3, 4, 5, 7, 8, 9]
    cases = []
    # (a) subsets, orderings of the feature list, column orders -- sequential, no seams
    pairs = [(cls, sid) for cls in CLASSES for sid in sids] + [("MulticlassCarver", sid) for sid in MULTI_SIDS]
    for cls, sid in pairs:
        if True:
            _, kinds, _ = scenario(sid, seed)
            names = list(kinds)
            for r in range(1, len(names) + 1):
                for sub in itertools.combinations(names, r):
                    cases.append({"cls": cls, "sid": sid, "seed": seed, "mode": "subset", "feats": list(sub)})
                    if r >= 2:  # the same subset through the parallel code path (default schedule)
                        cases.append({"cls": cls, "sid": sid, "seed": seed, "mode": "plan", "plan": [], "n_jobs": 2, "feats": list(sub)})
            for index in ("str", "shuffled"):  # row labels other than 0..n-1, sequential and through the pools
                cases.append({"cls": cls, "sid": sid, "seed": seed, "mode": "subset", "feats": names, "index": index})
                cases.append({"cls": cls, "sid": sid, "seed": seed, "mode": "plan", "plan": [], "n_jobs": 2, "feats": names, "index": index})
            for mf in (0.15, 0.06):  # thresholds whose inverse is not an integer (the number of quantiles is a rounding)
                for sub in [names] + [list(c) for c in itertools.combinations(names, 2)]:
                    cases.append({"cls": cls, "sid": sid, "seed": seed, "mode": "subset", "feats": list(sub), "min_freq": mf})
                    cases.append({"cls": cls, "sid": sid, "seed": seed, "mode": "plan", "plan": [], "n_jobs": 2, "feats": list(sub), "min_freq": mf})
            for perm in itertools.permutations(names):
                cases.append({"cls": cls, "sid": sid, "seed": seed, "mode": "list-order", "feats": list(perm)})
                cases.append({"cls": cls, "sid": sid, "seed": seed, "mode": "column-order", "feats": names, "columns": list(perm)})
    # (b)+(c) schedules: default plan first (records the trace), then deviations
    d = 1
    plan_cases = []
    for cls, sid in pairs:
        if True:
            base = {"cls": cls, "sid": sid, "seed": seed, "mode": "plan", "plan": [], "n_jobs": 2}
            r0 = common.call_guarded(run_case, base)
            if "trace" not in r0:  # the default schedule itself fails: report it, nothing to derive deviations from
                rep.record(base, r0)
                continue
            trace = r0.pop("trace")
            rep.extra.setdefault("choice_points", {})[f"{cls}/{sid}"] = [list(t) for t in trace]
            for plan in sched.deviations(trace, d):
                plan_cases.append(dict(base, plan=plan))
            # every global iteration order of the feature names x (thorough) every completion order of the first pool
            k = len(scenario(sid, seed)[1])
            pools = [i for i, (s, n) in enumerate(trace) if s.startswith("pool.imap.done")]
            for rank in itertools.permutations(range(k)):
                plan_cases.append(dict(base, rank=list(rank)))
                if tier != "quick" and pools:
                    i0, n0 = pools[0], trace[pools[0]][1]
                    for alt in range(1, n0):
                        plan = [0] * (i0 + 1)
                        plan[i0] = alt
                        plan_cases.append(dict(base, rank=list(rank), plan=plan))
            if tier != "quick":
                for plan in sched.deviations(trace, 2, max_alternatives=3):
                    if sum(1 for c in plan if c) == 2:
                        plan_cases.append(dict(base, plan=plan))
    cases += plan_cases
    rep.rule = (
        "E3: scenarios of 4 features of mixed kinds (quantitative with missing values, categorical, numeric categories, ordinal, a constant "
        "and an id-like feature that get dropped) x classes Discretizer/BinaryCarver/ContinuousCarver. (a) every non-empty subset of the "
        "features, every ordering of the feature list, every column order (sequential); (b) the iteration order of every list(set(features)) "
        "call: every global order (k!) and every single-site deviation (all k!-1 alternatives at each of the ~15 call-site instances); "
        "(c) n_jobs=2 under StubPool (pickled task isolation): every execution order and every completion order of each imap_unordered "
        "pool as single deviations, pairs of deviations (3 alternatives per point) in thorough. Oracle: per feature, kept/dropped, canonical "
        "values_orders and transform output equal the single-feature sequential fit. Conformance of the seams: the same scenarios in real "
        "subprocesses under PYTHONHASHSEED values and real multiprocessing.Pool (n_jobs 2, 3). states = schedules/configurations executed"
    )
    rep.assumptions = [
        "apply_async tasks are collected with .get() in submission order by the library, so only their isolation (pickling round trip) matters",
        "per-worker module globals are not modelled (tasks are pure functions of their pickled arguments)",
    ]
    distinct_traces = set()
    for case, res in zip(cases, pmap(run_case, cases, chunksize=4)):
        tr = res.pop("trace", None)
        if tr is not None:
            distinct_traces.add(json.dumps([case.get("plan"), case.get("rank")]))
        res["validated"] = 0
        rep.record(case, res)
    rep.extra["schedules_explored"] = len(plan_cases)
    rep.extra["distinct_schedules"] = len(distinct_traces)
    rep.extra["deviation_bound"] = d if tier == "quick" else 2
    # conformance with reality: real hash seeds, real pools
    hashseeds = range(4) if tier == "quick" else range(16)
    real = []
    for cls, sid in pairs:
        if True:
            for hs in hashseeds:
                real.append((cls, sid, seed, 1, hs))
            for nj in (2, 3):
                real.append((cls, sid, seed, nj, 0))
    n_real = 0
    for args, got in zip(real, pmap(real_run, real, chunksize=1)):
        cls, sid, _seed, nj, hs = args
        case = {"cls": cls, "sid": sid, "seed": seed, "mode": "real", "n_jobs": nj, "hashseed": hs}
        if "__error__" in got or "__harness_error__" in got:
            rep.violation(case, {"kind": "real-run-failed", "what": f"real run {args} failed: {str(got)[:300]}"})
            continue
        n_real += 1
        ref = reference(cls, sid, seed)
        diffs = compare(got, ref, list(ref))
        for dd in diffs[:2]:
            rep.violation(case, {"kind": "real:" + ("hashseed" if nj == 1 else "pool"), "what": f"{cls} scenario {sid} PYTHONHASHSEED={hs} n_jobs={nj}: {dd}"})
        rep.outcomes[f"{cls}:real:{'hashseed' if nj == 1 else 'pool'}"] += 1
    rep.validated = n_real
    rep.extra["real_runs"] = n_real
