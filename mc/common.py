"""Shared harness for the AutoCarver model-checking checks.

* puts the code under test ($AUTOCARVER_SRC, default /repo) first on sys.path,
* fixes PYTHONHASHSEED=0 by re-exec (determinism of the harness itself; the hash-seed dimension of
  C10 is explored explicitly through seams / subprocesses, never inherited from the environment),
* fork-based parallel map with ordered results,
* Report: counts states / transitions / outcomes, collects samples, violations, known findings,
  writes /verif/evidence/<id>.json and replay artefacts, prints VIOLATION / KNOWN-FINDING lines.
"""
from __future__ import annotations

import collections
import hashlib
import json
import math
import multiprocessing
import os
import subprocess
import sys
import time
import traceback
import warnings

VERIF = os.path.dirname(os.path.dirname(os.path.abspath(__file__)))
SRC = os.environ.get("AUTOCARVER_SRC", "/repo")
GUARD = "AUTOCARVER_VERIF"
NCPU = int(os.environ.get("VERIF_WORKERS", "0")) or min(16, os.cpu_count() or 1)


def bootstrap(module: str) -> None:
    """re-exec under PYTHONHASHSEED=0 and put the code under test first on sys.path"""
    if os.environ.get("PYTHONHASHSEED") != "0":
        env = dict(os.environ, PYTHONHASHSEED="0")
        os.execve(sys.executable, [sys.executable, "-m", module] + sys.argv[1:], env)
    os.environ[GUARD] = "1"
    if SRC not in sys.path[:1]:
        sys.path.insert(0, SRC)
    warnings.filterwarnings("ignore")
    os.environ.setdefault("PYTHONWARNINGS", "ignore")
    import AutoCarver  # noqa

    assert os.path.abspath(AutoCarver.__file__).startswith(os.path.abspath(SRC)), (
        "AutoCarver imported from",
        AutoCarver.__file__,
        "expected under",
        SRC,
    )


# ------------------------------------------------------------------------------------------------
# JSON helpers: every case must be JSON-serialisable (so that it can be replayed)
# ------------------------------------------------------------------------------------------------
def jsonable(o):
    import numpy as np

    if isinstance(o, dict):
        return {str(k) if not isinstance(k, str) else k: jsonable(v) for k, v in o.items()}
    if isinstance(o, (list, tuple, set, frozenset)):
        return [jsonable(v) for v in o]
    if isinstance(o, (np.integer,)):
        return int(o)
    if isinstance(o, (np.floating, float)):
        f = float(o)
        if math.isnan(f):
            return "NaN"
        if math.isinf(f):
            return "Infinity" if f > 0 else "-Infinity"
        return f
    if isinstance(o, (np.bool_,)):
        return bool(o)
    if isinstance(o, (str, int, bool)) or o is None:
        return o
    from fractions import Fraction

    if isinstance(o, Fraction):
        return f"{o.numerator}/{o.denominator}"
    return repr(o)


def sha(o) -> str:
    return hashlib.sha1(json.dumps(jsonable(o), sort_keys=True).encode()).hexdigest()[:16]


# ------------------------------------------------------------------------------------------------
# parallel map
# ------------------------------------------------------------------------------------------------
_WORKER_FN = None


def _call(arg):
    try:
        return _WORKER_FN(arg)
    except Exception as exc:
        # an exception that escapes from the code under test at a place where the check did not expect one is a
        # violation of the property being checked (the check only makes valid calls there), not a harness error
        tb = traceback.extract_tb(exc.__traceback__)
        inner = [fr for fr in tb if os.path.abspath(fr.filename).startswith(os.path.abspath(SRC) + os.sep)]
        if inner:
            fr = inner[-1]
            where = f"{fr.filename.split('AutoCarver/')[-1]}:{fr.name}"
            return {
                "outcome": "unexpected-exception",
                "violations": [{"kind": f"unexpected-{type(exc).__name__}@{where}", "what": f"unexpected {type(exc).__name__}: {str(exc)[:160]} at {where} (called from {tb[-len(inner)-1].name if len(tb) > len(inner) else '?'})"}],
            }
        return {"__harness_error__": f"{type(exc).__name__}: {exc}", "tb": traceback.format_exc(), "case": jsonable(arg)}
    except BaseException as exc:  # harness error inside a worker: never swallowed
        return {"__harness_error__": f"{type(exc).__name__}: {exc}", "tb": traceback.format_exc(), "case": jsonable(arg)}


def call_guarded(fn, arg):
    """run one case in the calling process with the same exception policy as the workers"""
    global _WORKER_FN
    prev, _WORKER_FN = _WORKER_FN, fn
    try:
        return _call(arg)
    finally:
        _WORKER_FN = prev


def pmap(fn, items, workers: int = None, chunksize: int = None):
    """ordered parallel map over a list (fork: the workers inherit imported modules and seams)"""
    global _WORKER_FN
    items = list(items)
    workers = workers or NCPU
    if workers <= 1 or len(items) < 4:
        _WORKER_FN = fn
        for it in items:
            yield _call(it)
        return
    _WORKER_FN = fn
    ctx = multiprocessing.get_context("fork")
    if chunksize is None:
        chunksize = max(1, min(64, len(items) // (workers * 8) or 1))
    import gc

    gc.collect()
    gc.freeze()  # the workers' garbage collector must not touch (and thereby copy) the pages of what the master holds
    try:
        with ctx.Pool(workers) as pool:
            for res in pool.imap(_call, items, chunksize=chunksize):
                yield res
    finally:
        gc.unfreeze()


# ------------------------------------------------------------------------------------------------
# known findings
# ------------------------------------------------------------------------------------------------
def load_findings():
    path = os.path.join(VERIF, "known_findings.json")
    if not os.path.exists(path):
        return {}
    with open(path) as f:
        data = json.load(f)
    return {e["id"]: e for e in data.get("findings", [])}


# ------------------------------------------------------------------------------------------------
# Report
# ------------------------------------------------------------------------------------------------
class HarnessError(Exception):
    pass


class Report:
    """accumulates what one run of one check covered"""

    def __init__(self, prop: str, tier: str, seed: int):
        self.prop, self.tier, self.seed = prop, tier, seed
        self.t0 = time.time()
        self.states = 0  # distinct canonical states executed on the implementation
        self.transitions = 0  # construction / operation steps taken (incl. those reaching seen states)
        self.evaluations = 0  # oracle evaluations (one per executed case)
        self.validated = 0  # executions where implementation and reference model were both run and compared
        self.nontrivial = set()
        self.outcomes = collections.Counter()
        self.dont_care = 0
        self.samples = []
        self.violations = []  # (case, detail)
        self.known = collections.OrderedDict()  # finding id -> [count, example]
        self.exhaustive = True
        self.caps = []
        self.rule = ""
        self.assumptions = []
        self.extra = {}
        self.findings = load_findings()
        self.max_samples = 5
        self.max_violation_files = 5

    # -- recording -----------------------------------------------------------------------------
    def cap(self, what: str):
        self.exhaustive = False
        self.caps.append(what)

    def sample(self, s):
        if len(self.samples) < self.max_samples:
            self.samples.append(jsonable(s))

    def record(self, case, res):
        """res: dict produced by a check's run_case. keys:
        outcome (str), nontrivial (hashable|None|list), dont_care (int), validated (int, default 1),
        states (int, default 1), transitions (int, default 1), violations: list of dicts
        {what: str, finding: id|None, detail: ...}; sample: optional written-out description"""
        if "__harness_error__" in res:
            raise HarnessError(res["__harness_error__"] + "\n" + res.get("tb", "") + "\ncase=" + json.dumps(res.get("case"))[:2000])
        self.evaluations += res.get("evaluations", 1)
        self.states += res.get("states", 1)
        self.transitions += res.get("transitions", 1)
        self.validated += res.get("validated", 1)
        self.dont_care += res.get("dont_care", 0)
        out = res.get("outcome", "ok")
        for o in out if isinstance(out, (list, tuple)) else [out]:
            self.outcomes[o] += 1
        nt = res.get("nontrivial")
        if nt:
            for k in nt if isinstance(nt, (list, tuple, set)) else [nt]:
                self.nontrivial.add(k if isinstance(k, (str, int)) else sha(k))
        if "sample" in res and len(self.samples) < self.max_samples:
            # keep samples from different outcome classes first
            seen_out = {s.get("outcome") for s in self.samples if isinstance(s, dict)}
            if out not in seen_out or len(self.samples) < 2:
                self.samples.append(jsonable({"outcome": out, "case": res["sample"]}))
        for v in res.get("violations", []):
            self.violation(case, v)

    def violation(self, case, v):
        fid = v.get("finding")
        entry = self.findings.get(fid) if fid else None
        if (
            entry is not None
            and entry.get("status") == "open"
            and self.prop in ([entry.get("property")] + entry.get("properties", []))
        ):
            slot = self.known.setdefault(fid, [0, jsonable({"case": case, "what": v.get("what")})])
            slot[0] += 1
        else:
            self.violations.append((case, v))

    # -- output ----------------------------------------------------------------------------------
    def finish(self) -> int:
        wall = time.time() - self.t0
        # known findings
        for fid, (count, _example) in self.known.items():
            entry = self.findings[fid]
            print(f"KNOWN-FINDING: property={self.prop} {fid}: {entry['what']} [{count} explored cases]")
        # violations -> replay files
        if os.environ.get("VERIF_DUMP"):
            with open(os.environ["VERIF_DUMP"], "w") as f:
                for case, v in self.violations:
                    f.write(json.dumps(jsonable({"case": case, "violation": v})) + "\n")
        paths = []
        vdir = os.path.join(os.environ.get("VERIF_REPLAY_DIR", os.path.join(VERIF, "replays")), self.prop)
        by_what = collections.OrderedDict()
        for case, v in self.violations:
            by_what.setdefault(v.get("kind") or v.get("what", "?").split(":")[0][:40], []).append((case, v))
        for what, lst in by_what.items():
            if len(paths) >= 30:
                print(f"  (+{len(lst)} more violations of kind '{what}', replay files capped)", file=sys.stderr)
                continue
            for case, v in lst[: self.max_violation_files]:
                os.makedirs(vdir, exist_ok=True)
                payload = {"property": self.prop, "case": jsonable(case), "violation": jsonable(v)}
                path = os.path.join(vdir, sha(payload) + ".json")
                with open(path, "w") as f:
                    json.dump(payload, f, indent=1, sort_keys=True)
                paths.append(path)
                # a plain unit test that replays this single case without any explorer
                with open(path[:-5] + "_test.py", "w") as f:
                    f.write(
                        '"""replays one violating case of %s on the code under test (no explorer); fails while the violation persists"""\n'
                        "import subprocess\n\n\ndef test_replay():\n"
                        '    r = subprocess.run(["/venv/bin/python", "-m", "mc.replay", %r], cwd="/verif", capture_output=True, text=True)\n'
                        "    assert r.returncode == 0, r.stdout[-2000:]\n" % (self.prop, path)
                    )
                print(f"VIOLATION property={self.prop} replay={path}")
                print(f"  what: {v.get('what')}", file=sys.stderr)
            if len(lst) > self.max_violation_files:
                print(f"  (+{len(lst) - self.max_violation_files} more violations of kind '{what}')", file=sys.stderr)
        coverage = {
            "states": int(self.states),
            "transitions": int(self.transitions),
            "traces_validated_against_impl": int(self.validated),
            "evaluations": int(self.evaluations),
            "distinct_nontrivial": len(self.nontrivial),
            "rule": self.rule,
            "samples": self.samples[: self.max_samples] or [{"note": "no sample recorded"}],
            "exhaustive": bool(self.exhaustive),
            "caps": self.caps,
            "dont_care": int(self.dont_care),
            "distinct_outcomes": len(self.outcomes),
            "outcome_histogram": {str(k): int(v) for k, v in sorted(self.outcomes.items(), key=lambda kv: str(kv[0]))},
            "known_findings_hit": {fid: c for fid, (c, _e) in self.known.items()},
            "workers": NCPU,
            "source_under_test": SRC,
        }
        coverage.update(jsonable(self.extra))
        evidence = {
            "property_id": self.prop,
            "tier": self.tier,
            "seed": int(self.seed),
            "level": "model_checking",
            "coverage": coverage,
            "assumptions": self.assumptions,
            "wall_s": round(wall, 2),
            "violations": len(self.violations),
        }
        edir = os.environ.get("VERIF_EVIDENCE_DIR", os.path.join(VERIF, "evidence"))
        os.makedirs(edir, exist_ok=True)
        epath = os.path.join(edir, f"{self.prop}.json")
        with open(epath, "w") as f:
            json.dump(evidence, f, indent=1, sort_keys=True)
        validate_evidence(epath)
        print(
            f"[{self.prop}] tier={self.tier} seed={self.seed} states={self.states} transitions={self.transitions} "
            f"validated={self.validated} nontrivial={len(self.nontrivial)} dont_care={self.dont_care} "
            f"outcomes={len(self.outcomes)} exhaustive={self.exhaustive} violations={len(self.violations)} "
            f"known={sum(c for c, _ in self.known.values())} wall={wall:.1f}s"
        )
        return 1 if self.violations else 0


def validate_evidence(path: str) -> None:
    """validate against the schema with the tooling venv if it is there (never fatal if absent)"""
    schema = "/root/.vp/EVIDENCE.schema.json"
    vt = "/opt/veriftools/pyvenv/bin/python"
    if not (os.path.exists(schema) and os.path.exists(vt)):
        return
    code = (
        "import json,sys,jsonschema;"
        "jsonschema.validate(json.load(open(sys.argv[1])), json.load(open(sys.argv[2])))"
    )
    r = subprocess.run([vt, "-c", code, path, schema], capture_output=True, text=True)
    if r.returncode != 0:
        raise HarnessError("evidence does not validate: " + r.stderr[-800:])


def tier_seed(argv_tier=None):
    tier = argv_tier or os.environ.get("VERIF_TIER") or "quick"
    seed = int(os.environ.get("VERIF_SEED", "0") or 0)
    return tier, seed
