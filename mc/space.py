"""E1: bounded-exhaustive search space of datasets built from finite cell alphabets by construction steps,
configuration deviation grids, materialisation into DataFrames and driving of the real fit / transform.

A *cell* is the multiset of target values carried by one raw value of the feature:
  binary target      (n0, n1)
  continuous target  tuple of y values
  3-class target     (n0, n1, n2)
"""
from __future__ import annotations

import itertools
import math
import os
import traceback

import numpy as np
import pandas as pd

from .ref.carver import Cont, cmerge

STR_NAN = "__NAN__"
STR_DEFAULT = "__OTHER__"

SIGMA_B = {
    "quick": [(3, 1), (2, 2), (1, 3), (6, 2), (4, 4)],
    "thorough": [(3, 1), (2, 2), (1, 3), (6, 2), (4, 4), (2, 6), (1, 1), (4, 0), (0, 4)],
}
SIGMA_C = {
    "quick": [(0, 0, 1), (1, 2), (0, 3), (2, 2, 3), (1, 1, 1)],
    "thorough": [(0, 0, 1), (1, 2), (0, 3), (2, 2, 3), (1, 1, 1), (0, 1, 2, 3)],
}
SIGMA_M = {
    "quick": [(2, 1, 1), (1, 2, 1), (1, 1, 2), (2, 2, 0), (4, 2, 2)],
    "thorough": [(2, 1, 1), (1, 2, 1), (1, 1, 2), (2, 2, 0), (0, 2, 2), (4, 2, 2)],
}

# names of qualitative modalities by rank; seed picks how alphabetical order relates to the rank
NAME_SETS = [
    ["m0", "m1", "m2", "m3", "m4", "m5", "m6", "m7"],  # alphabetical order == rank
    ["z7", "y6", "x5", "w4", "v3", "u2", "t1", "s0"],  # alphabetical order == reverse rank
    ["c", "f", "a", "h", "b", "e", "g", "d"],  # scrambled
    ["10", "9", "100", "1a", "B", "b", "_", "~"],  # number-looking and punctuation
]
# exact affine maps for quantitative values
SCALES = [(1.0, 0.0), (0.5, -2.0), (1e6, 0.0), (1.0, 202300.0), (0.25, 1024.0)]


def names_for(seed, k=8):
    return NAME_SETS[seed % len(NAME_SETS)][:k]


def scale_for(seed):
    return SCALES[seed % len(SCALES)]


# ---------------------------------------------------------------------------------------------------
# construction search (explicit-state BFS over append_cell steps)
# ---------------------------------------------------------------------------------------------------
def construct(alphabet, kmin, kmax, ordered=True, keep=None):
    """BFS from the empty dataset; transition = append one cell of the alphabet.  `ordered=False`
    canonicalises by sorting (kinds where the order of raw values carries no information).
    Returns (states with kmin <= len <= kmax, number of transitions taken)."""
    seen = {()}
    frontier = [()]
    out = []
    transitions = 0
    for _ in range(kmax):
        nxt = []
        for st in frontier:
            for c in alphabet:
                transitions += 1
                s2 = st + (tuple(c),)
                key = s2 if ordered else tuple(sorted(s2))
                if key in seen:
                    continue
                seen.add(key)
                nxt.append(key)
                if len(key) >= kmin and (keep is None or keep(key)):
                    out.append(key)
        frontier = nxt
    return out, transitions


def grid(axes, d):
    """all configurations at Hamming distance <= d from the default (first value of every axis)"""
    names = list(axes)
    default = {n: axes[n][0] for n in names}
    out = [dict(default)]
    for r in range(1, d + 1):
        for sub in itertools.combinations(names, r):
            for vals in itertools.product(*[axes[n][1:] for n in sub]):
                cfg = dict(default)
                cfg.update(dict(zip(sub, vals)))
                out.append(cfg)
    return out


# ---------------------------------------------------------------------------------------------------
# materialisation
# ---------------------------------------------------------------------------------------------------
def cell_targets(cell, target):
    if target == "binary":
        return [0] * cell[0] + [1] * cell[1]
    if target == "multiclass":
        return [0] * cell[0] + [1] * cell[1] + [2] * cell[2]
    return list(cell)


def raw_values(kind, k, seed, scale=None):
    if kind in ("ORD", "CAT"):
        return names_for(seed, max(k, 1))[:k]
    if kind == "QNT":
        a, b = scale if scale is not None else scale_for(seed)
        return [a * (i + 1) + b for i in range(k)]
    if kind == "NUMCAT":
        return [float(i + 1) if i % 2 else int(i + 1) for i in range(k)]
    raise ValueError(kind)


def materialize(kind, cells, nan_cell, seed, target="binary", feature="f", classes=None, scale=None, values=None, xdtype=None, companion=None, yscale=None):
    vals = list(values) if values is not None else raw_values(kind, len(cells), seed, scale)
    xs, ys = [], []
    for v, c in zip(vals, cells):
        t = cell_targets(c, target)
        xs += [v] * len(t)
        ys += t
    if nan_cell is not None:
        t = cell_targets(nan_cell, target)
        xs += [np.nan] * len(t)
        ys += t
    if xdtype is not None:
        col = pd.Series(xs, dtype=xdtype)
    elif kind == "QNT":
        col = pd.Series(xs, dtype=float)
    else:
        col = pd.Series(xs, dtype=object)
    X = pd.DataFrame({feature: col})
    if companion == "id":  # an id-like qualitative column (each value once): dropped by every discretizer
        X["g"] = pd.Series([f"id{i}" for i in range(len(xs))], dtype=object)
    if companion == "q2":  # a second, regular quantitative feature
        X["g"] = pd.Series([float((3 * i) % 4) for i in range(len(xs))], dtype=float)
    if classes is not None:
        ys = [classes[v] for v in ys]
    if yscale is not None:  # continuous targets whose information sits in the fractional part
        ys = [v * yscale for v in ys]
    y = pd.Series(ys)
    return X, y, vals


def feature_kwargs(kind, vals, feature="f"):
    if kind == "ORD":
        # the ranking of an ordinal feature is given as strings (documented usage), also for numeric columns
        return dict(ordinal_features=[feature], values_orders={feature: [v if isinstance(v, str) else str_form(v) for v in vals]})
    if kind in ("CAT", "NUMCAT"):
        return dict(qualitative_features=[feature])
    if kind == "QNT":
        return dict(quantitative_features=[feature])
    raise ValueError(kind)


def carver_class(name):
    from AutoCarver import BinaryCarver, ContinuousCarver, MulticlassCarver

    return {"binary": BinaryCarver, "continuous": ContinuousCarver, "multiclass": MulticlassCarver}[name]


def carver_kwargs(case, vals):
    cfg = case["cfg"]
    kw = dict(
        min_freq=cfg["min_freq"],
        max_n_mod=cfg["max_n_mod"],
        min_freq_mod=cfg.get("min_freq_mod"),
        dropna=cfg.get("dropna", True),
        output_dtype=cfg.get("output_dtype", "float"),
        copy=cfg.get("copy", True),
        verbose=bool(cfg.get("verbose", False)),
    )
    if cfg.get("verbose"):
        kw["pretty_print"] = False  # raw prints (captured by the driver), no IPython display
    if case["carver"] != "continuous":
        kw["sort_by"] = cfg.get("sort_by", "tschuprowt")
    kw.update(feature_kwargs(case["kind"], vals))
    if case.get("vocabulary"):  # the user lists the known categories of a NON-ordinal feature
        kw["values_orders"] = {"f": sorted(vals)}
    if case.get("pregroup"):  # a previous discretization handed over (ChainedDiscretizer-like): the two first categories are one group
        from AutoCarver.discretizers import GroupedList

        kw["values_orders"] = {"f": GroupedList({vals[1]: [vals[0], vals[1]], **{v: [v] for v in vals[2:]}})}
    if case.get("companion") == "id":
        kw["qualitative_features"] = list(kw.get("qualitative_features", [])) + ["g"]
    if case.get("companion") == "q2":
        kw["quantitative_features"] = list(kw.get("quantitative_features", [])) + ["g"]
    kw.update(case.get("kw") or {})  # user-chosen sentinels (str_nan / str_default)
    return kw


def discretizer_for(case, vals):
    from AutoCarver.discretizers import Discretizer

    fk = feature_kwargs(case["kind"], vals)
    if case.get("vocabulary"):
        fk["values_orders"] = {"f": sorted(vals)}
    return Discretizer(
        quantitative_features=fk.get("quantitative_features", []),
        qualitative_features=fk.get("qualitative_features", []),
        ordinal_features=fk.get("ordinal_features"),
        values_orders=fk.get("values_orders"),
        min_freq=case["cfg"]["min_freq"],
        copy=True,
    )


def innermost_frame(exc):
    tb = traceback.extract_tb(exc.__traceback__)
    for fr in reversed(tb):
        if "AutoCarver" in fr.filename:
            return f"{fr.filename.split('AutoCarver/')[-1]}:{fr.name}"
    return "?"


def target_of(case):
    return {"binary": "binary", "continuous": "continuous", "multiclass": "multiclass"}[case["carver"]]


def cellify(case, cells):
    if cells is None:
        return None
    if case["carver"] == "continuous":
        return [Cont(c) for c in cells]
    return [tuple(c) for c in cells]


def build_frames(case):
    target = target_of(case)
    cells = [tuple(c) for c in case["cells"]]
    nan = tuple(case["nan"]) if case.get("nan") is not None else None
    X, y, vals = materialize(case["kind"], cells, nan, case.get("seed", 0), target, classes=case.get("classes"), scale=case.get("scale"), values=case.get("values"), xdtype=case.get("xdtype"), companion=case.get("companion"), yscale=case.get("yscale"))
    Xd = yd = None
    dev = case.get("dev")
    if dev is not None:
        dcells = [tuple(c) for c in dev["cells"]]
        dnan = tuple(dev["nan"]) if dev.get("nan") is not None else None
        Xd, yd, _ = materialize(case["kind"], dcells, dnan, case.get("seed", 0), target, classes=case.get("classes"), scale=case.get("scale"), values=case.get("values"), xdtype=case.get("xdtype"), companion=case.get("companion"), yscale=case.get("yscale"))
    return X, y, Xd, yd, vals


def reindex_frames(case, X, y, Xd, yd):
    """optional non-default (unique, unordered) index on the train and dev samples"""
    if case["cfg"].get("index") == "offset":
        idx = [7 + 3 * ((5 * i) % len(X)) if math.gcd(5, len(X)) == 1 else 7 + 3 * (len(X) - i) for i in range(len(X))]
        X = X.set_axis(idx, axis=0)
        y = y.set_axis(idx, axis=0)
        if Xd is not None:
            idd = [1000 + 2 * (len(Xd) - i) for i in range(len(Xd))]
            Xd = Xd.set_axis(idd, axis=0)
            yd = yd.set_axis(idd, axis=0)
    return X, y, Xd, yd


def fit_carver(case):
    """runs the real carver. returns dict(status='ok'|'assert'|'internal', ...)"""
    X, y, Xd, yd, vals = build_frames(case)
    X, y, Xd, yd = reindex_frames(case, X, y, Xd, yd)
    import contextlib
    import io

    quiet = contextlib.redirect_stdout(io.StringIO()) if case["cfg"].get("verbose") else contextlib.nullcontext()
    os.environ.setdefault("TQDM_DISABLE", "1")
    with quiet, contextlib.redirect_stderr(io.StringIO()) if case["cfg"].get("verbose") else contextlib.nullcontext():
        return _fit_carver(case, X, y, Xd, yd, vals)


def _fit_carver(case, X, y, Xd, yd, vals):
    out = {"X": X, "y": y, "Xd": Xd, "yd": yd, "vals": vals}
    try:
        carver = carver_class(case["carver"])(**carver_kwargs(case, vals))
        if Xd is not None:
            carver.fit(X, y, X_dev=Xd, y_dev=yd)
        else:
            carver.fit(X, y)
        out.update(status="ok", carver=carver)
    except AssertionError as exc:
        out.update(status="assert", message=str(exc)[:200])
    except Exception as exc:  # noqa
        out.update(status="internal", message=f"{type(exc).__name__}: {str(exc)[:160]}", exc_type=type(exc).__name__, frame=innermost_frame(exc))
    return out


def fit_discretizer(case, X, y, vals):
    out = {}
    try:
        d = discretizer_for(case, vals)
        d.fit(X, y)
        out.update(status="ok", disc=d)
    except AssertionError as exc:
        out.update(status="assert", message=str(exc)[:200])
    except Exception as exc:  # noqa
        out.update(status="internal", message=f"{type(exc).__name__}: {str(exc)[:160]}", exc_type=type(exc).__name__, frame=innermost_frame(exc))
    return out


# ---------------------------------------------------------------------------------------------------
# reading a fitted values_orders (list + content) without using transform
# ---------------------------------------------------------------------------------------------------
def is_nan_leader(v):
    return isinstance(v, str) and v == STR_NAN


def base_index_of_value(order, kind, value):
    """index (in list order, missing-value modality excluded) of the group a raw value belongs to"""
    leaders = [l for l in order if not is_nan_leader(l)]
    if kind == "QNT":
        for i, l in enumerate(leaders):
            if value <= l:
                return i
        return None
    for i, l in enumerate(leaders):
        members = order.content[l]
        if any((m == value) for m in members) or any((m == str_form(value)) for m in members):
            return i
    return None


def str_form(v):
    if isinstance(v, float) and float(v).is_integer():
        return str(int(v))
    return str(v)


def base_cells(case, order, vals, cells, kind):
    """merge the raw cells of the training (or dev) sample per base modality of `order` (a fitted
    Discretizer's values_orders entry) -> (list of merged cells in base order, raw->base index map)"""
    leaders = [l for l in order if not is_nan_leader(l)]
    idx = [base_index_of_value(order, kind, v) for v in vals]
    merged = []
    for b in range(len(leaders)):
        parts = [c for c, i in zip(cells, idx) if i == b]
        if parts:
            merged.append(cmerge(parts))
        else:
            merged.append(Cont(()) if case["carver"] == "continuous" else tuple([0] * len(cells[0])))
    return merged, idx


def grouping_of(carver_order, base_order):
    """expresses the carver's groups as lists of base-modality indices.
    returns (groups in carver order, nan_pos, problems)"""
    problems = []
    base_leaders = [l for l in base_order if not is_nan_leader(l)]
    groups = []
    nan_pos = None
    reg = 0
    for leader in carver_order:
        members = carver_order.content[leader]
        has_nan = any(is_nan_leader(m) for m in members)
        mem = [m for m in members if not is_nan_leader(m)]
        idxs = []
        for b, bl in enumerate(base_leaders):
            bm = [m for m in base_order.content[bl] if not is_nan_leader(m)]
            inside = [any(x == m2 for m2 in mem) for x in bm]
            if all(inside) and bm:
                idxs.append(b)
            elif any(inside):
                problems.append(f"base modality {bl!r} is split by carver group {leader!r}")
        if has_nan:
            if not idxs:
                nan_pos = "alone"
                continue
            nan_pos = reg
        if not idxs:
            problems.append(f"carver group {leader!r} contains no whole base modality")
            continue
        groups.append(idxs)
        reg += 1
    flat = [i for g in groups for i in g]
    if sorted(flat) != list(range(len(base_leaders))):
        problems.append(f"carver groups {groups} do not partition the {len(base_leaders)} base modalities")
    return groups, nan_pos, problems


def partition_of(series):
    """partition of row positions induced by the labels of a transformed column (NaN = own class)"""
    classes = {}
    for pos, v in enumerate(series.tolist()):
        key = "NaN" if (isinstance(v, float) and np.isnan(v)) else ("v", v)
        classes.setdefault(key, []).append(pos)
    return classes
