"""Generates /verif/MANIFEST.json from one table, so that it is always schema-valid and consistent.
   cd /verif && python3 -m mc.manifest"""
import json
import os

VERIF = os.path.dirname(os.path.dirname(os.path.abspath(__file__)))
PY = "/venv/bin/python"

# id -> (engine, technique, level text, level note, design ref)
CHECKS = {
    "C13": (
        "E2-bfs",
        "explicit-state BFS over API-call histories of the real GroupedList, total conformance with a reference model",
        "Every sequence of valid GroupedList operations up to the stated depth over a small universe (str, int, float, "
        "str_nan sentinel, falsy 0 and '') from every small list/dict constructor is executed on the real class and on a "
        "plain reference model; invariants and all lookups are compared after every transition. Bounded-exhaustive: the "
        "verdict covers exactly that space.",
        "Trusted: the 60-line RefGroupedList; values compared by ==; depth/universe bounds as reported in the evidence; "
        "raw numpy.nan only used as a lookup probe.",
        "DESIGN.md §3 C13",
    ),
}

NOT_BUILT = "check not built yet (work in progress, see DESIGN.md §7 for the order)"


def main():
    props = [json.loads(l)["id"] for l in open(os.path.join(VERIF, "properties.jsonl"))]
    checks = []
    for pid in props:
        if pid not in CHECKS:
            continue
        engine, technique, text, note, ref = CHECKS[pid]
        checks.append(
            {
                "property_id": pid,
                "quick_cmd": f"{PY} -m mc.run {pid} --tier quick",
                "thorough_cmd": f"{PY} -m mc.run {pid} --tier thorough",
                "evidence_file": f"/verif/evidence/{pid}.json",
                "replay_cmd_template": f"{PY} -m mc.replay {{path}}",
                "engine": engine,
                "level_claimed": {"category": "model_checking", "text": text, "design_ref": ref},
                "level_note": note,
                "technique": technique,
            }
        )
    manifest = {
        "version": 1,
        "setup_cmd": f"{PY} -c \"import sys; sys.path.insert(0, '/repo'); import AutoCarver, pandas, numpy, scipy; print('ok', AutoCarver.__file__)\"",
        "hooks": {
            "guard": "AUTOCARVER_VERIF",
            "enable": "no in-tree hooks: the checks import AutoCarver from /repo's working tree and rebind module-level seams (Pool, set, shuffle) from outside; AUTOCARVER_VERIF=1 is exported by the harness but guards nothing in /repo",
            "baseline_off_cmd": "cd /repo && /venv/bin/python -m pytest -ra -q -p no:cacheprovider --timeout=900 --continue-on-collection-errors -n 16",
            "source_commits": [],
            "add_only": True,
        },
        "engines": [
            {"name": "E1-space", "path": "/verif/mc", "serves_properties": [p for p in props if p in CHECKS and CHECKS[p][0] == "E1-space"], "kind_free_text": "bounded-exhaustive explicit-state search over dataset constructions x configuration deviations, real fit/transform vs pure-Python reference models"},
            {"name": "E2-bfs", "path": "/verif/mc", "serves_properties": [p for p in props if p in CHECKS and CHECKS[p][0] == "E2-bfs"], "kind_free_text": "breadth-first search over API-call histories on live objects with a reference model stepped in lock-step"},
            {"name": "E3-sched", "path": "/verif/mc", "serves_properties": [p for p in props if p in CHECKS and CHECKS[p][0] == "E3-sched"], "kind_free_text": "stateless exploration of pool completion orders / set iteration orders / shuffle outcomes through module-level seams"},
        ],
        "checks": checks,
        "notes": "Python-only machinery; model checking of the implementation itself (see DESIGN.md). known_findings.json lists repaired and open defects.",
        "not_applicable": [{"property_id": p, "reason": NOT_BUILT} for p in props if p not in CHECKS],
    }
    with open(os.path.join(VERIF, "MANIFEST.json"), "w") as f:
        json.dump(manifest, f, indent=1)
    print("MANIFEST.json written:", len(checks), "checks,", len(manifest["not_applicable"]), "not applicable")


if __name__ == "__main__":
    main()
