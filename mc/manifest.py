"""Generates /verif/MANIFEST.json from one table, so that it is always schema-valid and consistent.
   cd /verif && python3 -m mc.manifest"""
import json
import os

VERIF = os.path.dirname(os.path.dirname(os.path.abspath(__file__)))
PY = "/venv/bin/python"

# id -> (engine, technique, level text, level note, design ref)
CHECKS = {
    "C13": (
        "E2-bfs",
        "explicit-state BFS over API-call histories of the real GroupedList, total conformance with a reference model",
        "Every sequence of valid GroupedList operations up to the stated depth over a small universe (str, int, float, "
        "str_nan sentinel, falsy 0 and '') from every small list/dict constructor is executed on the real class and on a "
        "plain reference model; invariants and all lookups are compared after every transition. Bounded-exhaustive: the "
        "verdict covers exactly that space.",
        "Trusted: the 60-line RefGroupedList; values compared by ==; depth/universe bounds as reported in the evidence; "
        "raw numpy.nan only used as a lookup probe.",
        "DESIGN.md §3 C13",
    ),
    "C01": (
        "E1-space",
        "bounded-exhaustive explicit-state search over dataset constructions x configuration deviations; real fit judged by a brute-force reference model",
        "Every single-feature dataset built from the forced-to-collide cell alphabets (k<=4 raw values, k=5 in thorough) for ordinal, "
        "quantitative and categorical kinds, with/without a missing-value cell and a dev sample (<=1 cell replaced/removed), under every "
        "configuration within the stated deviation bound, is fitted by the real Binary/ContinuousCarver; RefCarver re-enumerates every "
        "contiguous grouping (both stages), recomputes the measure from textbook formulas and three-valued viability with exact rationals, "
        "and the fitted grouping must be an arg-max among viable candidates (or the drop justified).",
        "Small-scope: N<=64 rows; base modalities read from an independently fitted Discretizer; chi2 with or without Yates accepted; "
        "rate ties in rankings and non-dyadic thresholds hit exactly are DONT_CARE (counted in evidence).",
        "DESIGN.md §3 C01",
    ),
    "C02": (
        "E1-space",
        "bounded-exhaustive explicit-state search over dataset constructions x configuration deviations; observational oracle on transform output",
        "Same state space as C01; the oracle only reads transform(X_train)/transform(X_dev): number of labels, exact label frequencies "
        "against min_freq_mod, missing-value handling per dropna, dev label set / frequencies / ranking by mean target.",
        "Small-scope: N<=64 rows; frequencies exactly on a non-dyadic threshold and rate ties are DONT_CARE.",
        "DESIGN.md §3 C02",
    ),
    "C03": (
        "E1-space",
        "bounded-exhaustive search over fitted objects + complete boundary-neighbour probe sets",
        "For every fitted object of the column space (Discretizer family) and the carving space (Binary/ContinuousCarver), the static "
        "contiguity of values_orders is checked (quantitative runs of boundaries, ordinal runs of the user ranking, categorical order by "
        "exact training target rate) and transform is evaluated on a probe set that contains, for every fitted boundary, the boundary, "
        "both neighbouring doubles, midpoints, training values and +-1e300: intervals, right-closedness, monotonicity (float), "
        "unbounded last interval, number of values.",
        "The probe set is complete for a transform that depends on x only through comparisons with fitted boundaries; small-scope columns (<= 6 distinct values).",
        "DESIGN.md §3 C03",
    ),
    "C04": (
        "E1-space",
        "bounded-exhaustive search over fitted objects; transform compared with a reference mapping read from values_orders only",
        "For every fitted object of the column space and the carving space (all four output_dtype x dropna combinations, numeric-looking "
        "categories, the x+202300 scale whose boundaries agree to 4 significant digits, and each carver rebuilt from JSON), RefTransform "
        "(reads only list+content of values_orders) must induce exactly the row partition of transform(X_train); labels injective on "
        "groups; float labels are ranks; missing values per dropna.",
        "Label text is not prescribed; small-scope columns.",
        "DESIGN.md §3 C04",
    ),
    "C08": (
        "E1-space",
        "bounded-exhaustive search over degenerate and tied columns x all classes; outcome and well-formedness invariant",
        "Every column over the cell alphabet SIGMA_D (sizes 1..5, pure cells, never-observed ordinal values, missing cells, all-missing, "
        "constant, all-distinct, two rows) is fitted by every applicable discretizer class and the three carvers over a min_freq grid, "
        "with and without a companion feature that is dropped; the outcome must be completion or AssertionError, and a completed object "
        "must satisfy the full coherence invariant (attributes refer to kept features, values_orders well-formed and covering, summary, "
        "history, transform leaves dropped features untouched).",
        "History rows of a dropped feature are accepted when flagged removed; columns <= 4 distinct values (6 for ContinuousDiscretizer).",
        "DESIGN.md §3 C08",
    ),
    "C09": (
        "E1-space",
        "bounded-exhaustive search over tied / spiked columns; exact-rational oracle on bucket frequencies",
        "Same column space as C08 for the Discretizer family: bucket frequencies recomputed exactly from the cells and compared with "
        "min_freq (ordinal), min_freq/2 (quantitative), default-group membership iff rarer than min_freq (categorical), separate "
        "missing modality, and the ContinuousDiscretizer clauses (strictly increasing observed boundaries + inf, frequent values are "
        "boundaries, quantile buckets <= 2.5*min_freq).",
        "A frequency exactly on a non-dyadic threshold is DONT_CARE; small-scope columns.",
        "DESIGN.md §3 C09",
    ),
    "C16": (
        "E1-space",
        "bounded-exhaustive search over fitted objects; summary()/history() compared with transform and with a re-enumeration of both searches",
        "For every fitted carver of the C01 space and every Discretizer-family object of the column space: summary() rows are compared with "
        "values_orders and with one-row transforms of every listed value / one probe per quantitative group; history() must hold the raw "
        "row, every candidate RefCarver enumerates for both searches exactly once with a measure equal to recomputation, and its last "
        "viable row must be the fitted grouping.",
        "History of quantitative features speaks in interval labels, resolved through the raw-distribution row; small-scope datasets.",
        "DESIGN.md §3 C16",
    ),
    "C05": (
        "E1-space",
        "bounded-exhaustive fault enumeration: every frame of <= 2 rows over a row alphabet, on every fitted object of a reduced space",
        "For fitted Discretizer-family objects and BinaryCarvers of every kind (with/without default group, with/without missing values at "
        "fit, output_dtype x dropna), every frame of 0, 1 or 2 rows over the row alphabet (seen, unseen string/int/float, missing, "
        "below-min, above-max, boundary-neighbour doubles, +-1e300, string form of a seen number) and the training frame with one row "
        "replaced is transformed; the outcome must be an AssertionError naming the feature exactly when required, else only fitted labels.",
        "The fitted label set is read from labels_per_values; +-inf and strings in quantitative columns are outside the quantifier.",
        "DESIGN.md §3 C05",
    ),
    "C06": (
        "E1-space",
        "bounded-exhaustive search over a value-type alphabet; differential oracle original vs reloaded object",
        "Over quantitative (float64, float32, int64, 1e299, 1e-300, negative, x+202300) and qualitative (strings, number-looking strings, "
        "python/numpy ints, floats, integer-valued floats, mixed) columns, small tables, with/without missing cell, for the three carvers "
        "and the Discretizer family: json.dumps(to_json()) must succeed and the reloaded object must give the same transform outcome on "
        "the training frame, on every one-row frame of the C05 alphabet and on the empty frame, the same summary and the same JSON again.",
        "Differential: no expected value is hand-written; small tables (k<=3).",
        "DESIGN.md §3 C06",
    ),
    "C12": (
        "E1-space",
        "bounded-exhaustive search over 3-class datasets; differential oracle against independently fitted BinaryCarvers",
        "Every 3-class dataset over Sigma_m (k<=3, thorough 4) x kinds x class-label encodings whose string order differs from numeric order "
        "x configurations (incl. explicit min_freq_mod) x missing cell x dev sample: MulticlassCarver's kept columns and outputs must equal, "
        "class by class, a BinaryCarver with the same parameters fitted on the indicator; the raw column must come back unchanged.",
        "Differential; relies on BinaryCarver itself being checked by C01/C02.",
        "DESIGN.md §3 C12",
    ),
    "C18": (
        "E1-space",
        "bounded-exhaustive search over hierarchies x leaf count vectors; reference model RefChained",
        "For 4-5 hierarchy shapes (2-3 levels, uneven fan-out) and every leaf count vector over a small alphabet, x missing rows x min_freq "
        "x unknown value x unknown_handling: the fitted groups must equal the bottom-up reference model (exact rationals), merged values "
        "must sit in an ancestor, known values stay present, unknown values are rejected or merged with missing, transform outputs leaders.",
        "Frequencies exactly on a non-dyadic threshold are DONT_CARE; features dropped because nothing reaches min_freq are outside the statement.",
        "DESIGN.md §3 C18",
    ),
    "C17": (
        "E2-bfs",
        "explicit-state BFS over update_discretizer histories on live fitted objects; partition oracle + C04/C16/C06 oracles per state",
        "From ~25 fitted base objects (Binary/ContinuousCarver, Discretizer; quantitative, ordinal, categorical, numeric categories; "
        "with/without missing values; output_dtype x dropna) every sequence of valid edits up to depth 2 (quick) / 3 (thorough) is applied; "
        "after each edit the row partition of transform(X) must be the previous one with exactly the discarded and kept groups merged "
        "(unchanged for 'replace'), and RefTransform, the summary oracle and the JSON round trip must agree with transform in the new state.",
        "Valid edits for quantitative features merge an interval into its upper neighbour; successor objects come from a pickle whose fidelity is asserted.",
        "DESIGN.md §3 C17",
    ),
    "C19": (
        "E2-bfs",
        "exhaustive fault enumeration: fault class x injection position x class x history (fresh / fitted), state-equality oracle",
        "Every malformed input class of the statement is injected (value-level faults at every row position in thorough) into a valid 12-row "
        "frame for the three carvers, Discretizer, Qualitative- and QuantitativeDiscretizer, on a fresh and on an already fitted object; "
        "the call must raise AssertionError and the fitted object's canonical state, JSON export and transform(X) must be identical before/after.",
        "One valid base frame in 3 encodings; constructor-level faults only for the carvers (where the statement's mechanism lives).",
        "DESIGN.md §3 C19",
    ),
    "C07": (
        "E2-bfs",
        "exhaustive enumeration of transform histories (all row subsets / permutations / re-indexings) on live fitted objects, state-equality oracle",
        "For each of the six classes (carvers x dropna x output_dtype, with and without dev sample) fitted on a 10-row mixed frame: all 1023 "
        "non-empty row subsets, all 120 permutations of 5 rows, re-indexings, a frame with repeated rows, the empty frame, and all pairs "
        "(triples in thorough) over a 21-event sub-alphabet interleaved with summary()/to_json(); every output must equal the corresponding "
        "rows of the full result, the pickled fitted state and the caller's frames must be identical before/after, fit_transform = fit+transform.",
        "One base frame (10 rows); the fitted state is compared without _history.",
        "DESIGN.md §3 C07",
    ),
    "C10": (
        "E3-sched",
        "stateless deviation-bounded exploration of set-iteration orders and pool execution/completion orders through module-level seams; conformance runs with real hash seeds and real pools",
        "Every iteration order of every list(set(features)) call (all global orders; every alternative at each call-site instance as a single "
        "deviation) and every execution/completion order of the imap_unordered pools under a StubPool with pickled task isolation, plus all "
        "feature subsets, feature-list orders and column orders, for Discretizer/BinaryCarver/ContinuousCarver on 4-feature scenarios; per "
        "feature the outcome must equal the single-feature sequential fit. The seams are validated against reality by free-running "
        "subprocess runs under PYTHONHASHSEED values and real multiprocessing pools (reported as traces_validated_against_impl).",
        "apply_async completion order is not a degree of freedom (results are collected by handle); per-worker module globals and OS-level worker failures are not modelled.",
        "DESIGN.md §3 C10",
    ),
    "C11": (
        "E1-space",
        "bounded-exhaustive metamorphic exploration: every state of a reduced carving space x its orbit under generator re-encodings",
        "For every state (Binary/ContinuousCarver, 3 kinds, k<=3, with/without missing cell) the carver is re-fitted on each generator image: "
        "row permutations carried with the index (all N! for N<=6), index relabelings, 5 exact affine maps, order-preserving renamings; kept/"
        "dropped and the partition of row identities must not change.",
        "Differential oracle (no expected value); one generator from the identity (orbit closure by composition is not explored); exact ties in the measure are covered by open finding F20.",
        "DESIGN.md §3 C11",
    ),
    "C14": (
        "E1-space",
        "bounded-exhaustive search over frames built from a target-relative column alphabet x selector configurations (+ all shuffle outcomes through a seam); property-style oracle with recomputed measures",
        "Every frame whose columns are a 3-subset (4-subset in thorough) of the column alphabet (copy, monotone image, negation, duplicate, "
        "noisy, independent, constant, half-missing, qualitative analogues) for binary / 3-class / continuous targets, x n_best x "
        "thresh_corr x filters, and colsample=0.5 under every shuffle outcome: the returned list must be distinct inputs in decreasing "
        "recomputed association, capped by n_best, pairwise within thresh_corr, every omission justified by one of the stated reasons, "
        "reported measures equal to textbook recomputation, inputs unmodified.",
        "12-row frames; ties accepted in any order; chi2 with/without Yates accepted; completeness clause not judged for colsample<1; RegressionSelector's 1-r ranking is open finding F09.",
        "DESIGN.md §3 C14",
    ),
    "C15": (
        "E1-space",
        "bounded-exhaustive metamorphic exploration: every C14 frame x its orbit under generator re-encodings, differential oracle",
        "For the C14 frames with default measures/filters, the selection is recomputed after negating / rescaling each quantitative column, "
        "renaming the categories of each qualitative column by every permutation and by fresh names, every column permutation and row "
        "generators; the returned list must be identical modulo measure ties, and a single exact copy / monotone image of the target is "
        "always returned.",
        "Differential oracle; one generator from the identity; ties compared by value.",
        "DESIGN.md §3 C15",
    ),
}

# what the spaces gained after the three rounds of independently seeded changes (DESIGN.md section 9.0); appended to the level text
EXT = {
    "C01": "Also explored: min_freq_mod in {None, 0.125, 0.25, 0, per-table adaptive thresholds}, dev samples with an enlarged missing cell, verbose=True, non-default row index. Round 4: cut point exactly at 0 next to missing values.",
    "C02": "Also explored: thresholds within 0.5% of every cell frequency, explicit min_freq_mod=0, verbose=True, non-default row index. Round 4: cut point exactly at 0 next to a missing cell too rare to stand alone.",
    "C03": "Also explored: numeric-coded ordinal features (ascending/descending, int/float, codes >= 1e6), MulticlassCarver, categorical features with a user vocabulary, fractional continuous targets, probe frames under a non-default index. Round 4: the oracle re-applied after summary()/to_json()/history() and after a 'replace' edit; unusual dtypes (float32, int8, uint8, Int64, -0.0).",
    "C04": "Also explored: scales needing > 8 significant digits and > 10 decimals, the oracle re-applied after one update_discretizer edit and after summary()/history()/to_json(), non-default index, rebuilt vs fitted object. Round 4: oracle after a 'replace' edit; scales 1e-11*i and 1+i*2^-33 incl. ContinuousDiscretizer.",
    "C05": "Also explored: falsy unseen values ('' and 0), user-chosen sentinels, single-group columns, two features sharing their vocabulary, objects edited with update_discretizer before the probe. Round 4: frames built from records whose numeric field is None (object column).",
    "C06": "Also explored: round trip after one edit of each mode, frames lacking a column, multi-feature carvers with a feature dropped for every class, carvers fitted with a dev sample. Round 4: int64 values above 2**53.",
    "C07": "Also explored: every ordered pair of 25 row types vs the rows alone (two features sharing their vocabulary), ChainedDiscretizer(drop) over all row subsets, a column holding one +inf and one -inf. Round 4: fitted state compared around the first transform; a declared id-like feature with missing values that every fit drops.",
    "C08": "Also explored: user-chosen str_nan/str_default, two and three id-like companions dropped in the same fit. Round 4: no empty features_casting entry; transform of a frame without a dropped feature's column; unusual dtypes.",
    "C09": "Also explored: k=4,5 ordered tables, the comb family (2-3 over-represented values between runs of single rows), scales with a cut exactly at 0. Round 4: unusual dtypes (float32, int8, uint8, Int64, -0.0).",
    "C10": "Also explored: three id-like columns, a co-missing block, every subset through the n_jobs=2 path, shared vocabulary + new frame, numeric ordinal codes, MulticlassCarver with names colliding with per-class copies, int64 magnitudes above 2**53 next to floats. Round 4: stale values_orders of an earlier fit for quantitative features; string / shuffled row labels sequentially and through the pools.",
    "C11": "Also explored: maps x+2^20, 2^-30*x, shifts putting a cut at 0 or across a decade, single-row values between frequent values, categorical rate ties x min_freq_mod. Round 4: continuous targets in tenths with equal group means; dev-sample states whose cut-point labels sort differently once rescaled.",
    "C12": "Also explored: user-chosen sentinels, fresh argument objects per estimator, a new frame, re-transform of an output frame, duplicated index labels. Round 4: a categorical feature handed over with a previous grouping.",
    "C13": "Also explored: a second BFS with a raw float NaN leader, update() that splits a group. Round 4: update() with two and three new leaders; a second object built from first.content; thorough = 7-value universe at depth 3 + 4-value universe at depth 4.",
    "C14": "Also explored: two-measure lists (quantitative and qualitative) with the chain kept alive, Pearson filter, outlier measures. Round 4: clusters first > second > shadow-of-first for qualitative and quantitative features in every column order.",
    "C15": "Also explored: colsample<1 under every shuffle outcome (single copy of the target always returned), rows of X permuted alone, the frame replicated 150x, outlier measures with values exactly on a Tukey fence. Round 4: rescaling by 2^-40 and 2^40; a column with a z-score outlier.",
    "C16": "Also explored: summary() re-checked after one edit, one interval per quantitative row, two features fitted together with history() called twice. Round 4: summary() after the missing-value modality was renamed into a category.",
    "C17": "Also explored: observers (summary/transform/to_json) before every edit, thresholds replaced by lower values, leaders renamed. Round 4: mode 'replace' with nan for categorical features; missing value spelled None / float32 nan / pandas.NA.",
    "C18": "Also explored: two distinct unknown values, data holding intermediate-node labels, numeric columns under a string hierarchy, the empty string as unknown value, never-observed leaves. Round 4: repeated index labels.",
    "C19": "Also explored: category / pandas string dtypes, falsy sort_by values, rare-category frames, feature sets without ordinal features, refit after a first fit that dropped every feature. Round 4: refit with a sample holding missing values and a new category.",
}

NOT_BUILT = "check not built yet (work in progress, see DESIGN.md §7 for the order)"


def main():
    props = [json.loads(l)["id"] for l in open(os.path.join(VERIF, "properties.jsonl"))]
    checks = []
    for pid in props:
        if pid not in CHECKS:
            continue
        engine, technique, text, note, ref = CHECKS[pid]
        checks.append(
            {
                "property_id": pid,
                "quick_cmd": f"{PY} -m mc.run {pid} --tier quick",
                "thorough_cmd": f"{PY} -m mc.run {pid} --tier thorough",
                "evidence_file": f"/verif/evidence/{pid}.json",
                "replay_cmd_template": f"{PY} -m mc.replay {{path}}",
                "engine": engine,
                "level_claimed": {"category": "model_checking", "text": text + (" " + EXT[pid] if pid in EXT else ""), "design_ref": ref + ", §8.2, §9.0"},
                "level_note": note,
                "technique": technique,
            }
        )
    manifest = {
        "version": 1,
        "setup_cmd": f"{PY} -c \"import sys; sys.path.insert(0, '/repo'); import AutoCarver, pandas, numpy, scipy; print('ok', AutoCarver.__file__)\"",
        "hooks": {
            "guard": "AUTOCARVER_VERIF",
            "enable": "no in-tree hooks: the checks import AutoCarver from /repo's working tree and rebind module-level seams (Pool, set, shuffle) from outside; AUTOCARVER_VERIF=1 is exported by the harness but guards nothing in /repo",
            "baseline_off_cmd": "cd /repo && /venv/bin/python -m pytest -ra -q -p no:cacheprovider --timeout=900 --continue-on-collection-errors -n 16",
            "source_commits": [],
            "add_only": True,
        },
        "engines": [
            {"name": "E1-space", "path": "/verif/mc", "serves_properties": [p for p in props if p in CHECKS and CHECKS[p][0] == "E1-space"], "kind_free_text": "bounded-exhaustive explicit-state search over dataset constructions x configuration deviations, real fit/transform vs pure-Python reference models"},
            {"name": "E2-bfs", "path": "/verif/mc", "serves_properties": [p for p in props if p in CHECKS and CHECKS[p][0] == "E2-bfs"], "kind_free_text": "breadth-first search over API-call histories on live objects with a reference model stepped in lock-step"},
            {"name": "E3-sched", "path": "/verif/mc", "serves_properties": [p for p in props if p in CHECKS and CHECKS[p][0] == "E3-sched"], "kind_free_text": "stateless exploration of pool completion orders / set iteration orders / shuffle outcomes through module-level seams"},
        ],
        "checks": checks,
        "notes": "Python-only machinery; model checking of the implementation itself (see DESIGN.md). known_findings.json lists repaired and open defects.",
        "not_applicable": [{"property_id": p, "reason": NOT_BUILT} for p in props if p not in CHECKS],
    }
    with open(os.path.join(VERIF, "MANIFEST.json"), "w") as f:
        json.dump(manifest, f, indent=1)
    print("MANIFEST.json written:", len(checks), "checks,", len(manifest["not_applicable"]), "not applicable")


if __name__ == "__main__":
    main()
