"""CLI:  cd /verif && /venv/bin/python -m mc.run <ID> [--tier quick|thorough]

exit 0 = property held on everything explored (KNOWN-FINDING lines allowed), exit 1 = VIOLATION line(s)."""
import argparse
import importlib
import sys

from . import common


def main():
    ap = argparse.ArgumentParser()
    ap.add_argument("prop")
    ap.add_argument("--tier", default=None)
    args = ap.parse_args()
    common.bootstrap("mc.run")
    tier, seed = common.tier_seed(args.tier)
    prop = args.prop.upper()
    mod = importlib.import_module(f"mc.checks.{prop.lower()}")
    rep = common.Report(prop, tier, seed)
    try:
        mod.run(tier, seed, rep)
    except common.HarnessError as exc:
        print(f"HARNESS ERROR in {prop}: {exc}", file=sys.stderr)
        sys.exit(2)
    sys.exit(rep.finish())


if __name__ == "__main__":
    main()
